package verifh

import (
	"fmt"

	"github.com/cockroachdb/errors"
	"github.com/cockroachdb/errors/errorspb"
	"github.com/cockroachdb/errors/extgrpc"
	"github.com/cockroachdb/errors/exthttp"
	"github.com/cockroachdb/redact"
	gogorpc "github.com/gogo/googleapis/google/rpc"
	"github.com/gogo/protobuf/proto"
	"github.com/gogo/protobuf/types"
	"verifh/sym"
	"verifh/wire"
)

// payloadFault returns the Any for fault number k (nil = absent).
func payloadFault(k int) (*types.Any, string) {
	var m proto.Message
	switch k {
	case 0:
		return nil, "absent"
	case 1:
		return &types.Any{TypeUrl: "type.googleapis.com/unknown.pkg.Unregistered", Value: []byte{1, 2, 3}}, "unregistered-any"
	case 2:
		m = &errorspb.StringPayload{}
	case 3:
		m = &errorspb.StringsPayload{}
	case 4:
		m = &errorspb.MarkPayload{}
	case 5:
		m = &errorspb.TagsPayload{}
	case 6:
		m = &errorspb.ErrnoPayload{}
	case 7:
		// structurally complete (the property's precondition): a leaf with empty fields
		m = &errorspb.EncodedError{Error: &errorspb.EncodedError_Leaf{Leaf: &errorspb.EncodedErrorLeaf{}}}
	case 8:
		m = &exthttp.EncodedHTTPCode{}
	case 9:
		m = &extgrpc.EncodedGrpcCode{}
	case 10:
		m = &gogorpc.Status{}
	case 11:
		m = &errorspb.TestError{}
	case 12:
		m = &errorspb.MarkPayload{Msg: "m", Types: []errorspb.ErrorTypeMark{{FamilyName: "f"}}}
	case 18:
		m = &errorspb.StringsPayload{Details: []string{"a"}}
	case 19:
		m = &errorspb.StringsPayload{Details: []string{"a", "b"}}
	case 20:
		m = &errorspb.TagsPayload{Tags: []errorspb.TagPayload{{Tag: "k"}}}
	case 13, 14, 15, 16, 17:
		// the type URL of a registered message with bytes that cannot be unmarshalled
		// (a lone 0xff is an unterminated tag varint for every message type)
		url := []string{"cockroach.errorspb.EncodedError", "cockroach.errorspb.StringPayload", "cockroach.errorspb.TagsPayload",
			"cockroach.errorspb.MarkPayload", "cockroach.errors.exthttp.EncodedHTTPCode"}[k-13]
		return &types.Any{TypeUrl: "type.googleapis.com/" + url, Value: []byte{0xff}}, "corrupt-" + url
	}
	a, err := types.MarshalAny(m)
	if err != nil {
		panic(err)
	}
	return a, a.TypeUrl
}

const numPayloadFaults = 21

// guarded runs f and turns a panic into a failed assertion with the given id.
func guarded(v *sym.V, id string, f func()) {
	defer func() {
		if r := recover(); r != nil {
			v.Assert(id, false)
		}
	}()
	f()
}

// observeAll exercises every observer on e; none may panic.
func observeAll(v *sym.V, tag string, e error) {
	guarded(v, "nopanic-error@"+tag, func() { _ = e.Error() })
	guarded(v, "nopanic-unwrap@"+tag, func() {
		_ = errors.UnwrapOnce(e)
		_ = errors.UnwrapAll(e)
	})
	guarded(v, "nopanic-accessors@"+tag, func() {
		_ = errors.GetAllHints(e)
		_ = errors.GetAllDetails(e)
		_ = errors.GetAllIssueLinks(e)
		_ = errors.GetTelemetryKeys(e)
		_ = errors.GetDomain(e)
		_ = errors.GetContextTags(e)
		_ = errors.HasAssertionFailure(e)
		_ = errors.HasUnimplementedError(e)
		_ = exthttp.GetHTTPCode(e, 0)
		_ = extgrpc.GetGrpcCode(e)
		_ = errors.GetAllSafeDetails(e)
		_ = errors.GetReportableStackTrace(e)
		_ = errors.Is(e, e)
	})
	guarded(v, "nopanic-encode@"+tag, func() { _ = wire.Encode(e) })
	guarded(v, "nopanic-fmt@"+tag, func() {
		s := fmt.Sprintf("%v|%+v", e, e)
		v.Observe("fmt", s)
		v.Assert("fmt-caught-panic@"+tag, !sym.Contains(s, "PANIC="))
		r := string(redact.Sprintf("%v|%+v", e, e))
		v.Observe("redact", r)
		v.Assert("redact-caught-panic@"+tag, !sym.Contains(r, "PANIC="))
	})
	guarded(v, "nopanic-report@"+tag, func() { _, _ = errors.BuildSentryReport(e) })
}

// H_C05_Decode: decoding is total for every registered type key under payload,
// detail and message-type faults.
func H_C05_Decode(v *sym.V) {
	// registries: leaf / wrapper / multi-cause decoders, and (3, 4) the leaf / wrapper
	// encoder registries, whose keys include types that have no decoder and
	// therefore always arrive as opaque errors (e.g. the stack annotations)
	reg := v.Choice("registry", 5)
	key := v.RegistryKey("key", reg)
	which := reg
	if reg == 3 {
		which = 0
	} else if reg == 4 {
		which = 1
	}
	nf := numPayloadFaults
	if reg >= 3 {
		nf = 2 // keys taken from the encoder registries mostly have no decoder: the payload is not interpreted
	}
	pf, _ := payloadFault(v.Choice("payload", nf))
	nd := v.Choice("ndetails", 3)
	var details []string
	for i := 0; i < nd; i++ {
		details = append(details, v.Str(fmt.Sprintf("detail%d", i), sym.REGNN, 0, 1))
	}
	det := errorspb.EncodedErrorDetails{
		OriginalTypeName:  key,
		ErrorTypeMark:     errorspb.ErrorTypeMark{FamilyName: key, Extension: v.Str("ext", sym.REGNN, 0, 1)},
		ReportablePayload: details,
		FullDetails:       pf,
	}
	msg := v.Str("msg", sym.Class(v.Param("msgclass", int(sym.REG))), 0, v.Param("msglen", 1))
	inner := wire.Encode(errors.New("inner"))
	var enc *wire.Enc
	switch which {
	case 0:
		enc = &wire.Enc{Error: &errorspb.EncodedError_Leaf{Leaf: &errorspb.EncodedErrorLeaf{Message: msg, Details: det}}}
	case 1:
		enc = &wire.Enc{Error: &errorspb.EncodedError_Wrapper{Wrapper: &errorspb.EncodedWrapper{
			Cause: *inner, Message: msg, Details: det, MessageType: errorspb.MessageType(v.Int32("mtype"))}}}
	case 2:
		var causes []*errorspb.EncodedError
		for i := v.Choice("ncauses", 3); i > 0; i-- {
			causes = append(causes, inner)
		}
		enc = &wire.Enc{Error: &errorspb.EncodedError_Leaf{Leaf: &errorspb.EncodedErrorLeaf{Message: msg, Details: det, MultierrorCauses: causes}}}
	}
	// carrier position: outermost, or below a known wrapper
	if v.Choice("carrier", 2) == 1 {
		outer := wire.Encode(errors.WithHint(errors.New("x"), "h"))
		outer.Error.(*errorspb.EncodedError_Wrapper).Wrapper.Cause = *enc
		enc = outer
	}
	var e error
	guarded(v, "nopanic-decode@"+key, func() { e = wire.Decode(wire.Copy(enc)) })
	if e == nil {
		v.Assert("non-nil@"+key, false)
		return
	}
	v.Reach("decoded")
	observeAll(v, key, e)
}
