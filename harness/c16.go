package verifh

import (
	"fmt"
	"path/filepath"

	"github.com/cockroachdb/errors"
	"verifh/c16a"
	"verifh/c16b"
	"verifh/c16d"
	"verifh/c16x"
	"verifh/sym"
)

// callerName/callerPkgDir: the helper that is the caller at depth d.
var c16Funcs = []string{"verifh/c16a.L0", "verifh/c16b.L1", "verifh/c16c.L2", "verifh/c16d.L3"}
var c16Dirs = []string{"c16a", "c16b", "c16c", "c16d"}

func c16check(v *sym.V, which, d int, obs bool) {
	ent := c16a.Entries[which]
	defer func() {
		// natively, report any functional failure also under the engine's algebraic id
		if !v.Symbolic() && len(v.Failures) > 0 {
			v.Assert("skip@"+ent.Name, false)
		}
	}()
	err, dom := c16d.L3(v, which, d)
	if ent.Domain {
		if err != nil {
			dom = errors.GetDomain(err)
		}
		if obs {
			v.Observe("domain-dir", filepath.Base(string(dom)))
		}
		v.Assert("domain@"+ent.Name, filepath.Base(string(dom)) == c16Dirs[d])
		return
	}
	// the stack is attached to one of the layers (outermost one that has any)
	st := errors.GetReportableStackTrace(err)
	for c := err; st == nil && c != nil; c = errors.UnwrapOnce(c) {
		st = errors.GetReportableStackTrace(c)
	}
	if st == nil || len(st.Frames) == 0 {
		v.Assert("has-stack@"+ent.Name, false)
		return
	}
	inner := st.Frames[len(st.Frames)-1]
	fn := inner.Module + "." + inner.Function
	if obs {
		v.Observe("frame", fn)
	}
	v.Assert("frame@"+ent.Name, fn == c16Funcs[d])
	if sym.Contains(ent.Name, "stacked") {
		return // the innermost recorded source is the one of the already stacked cause
	}
	_, _, sfn, ok := errors.GetOneLineSource(err)
	if obs {
		v.Observe("source", fmt.Sprint(sfn, ok))
	}
	v.Assert("source@"+ent.Name, ok && sfn == fmt.Sprintf("L%d", d))
}

// H_C16_Depth: every stack-capturing / domain-computing entry point names the
// d-th caller, d in 0..3, through non-inlinable helpers in distinct packages.
func H_C16_Depth(v *sym.V) {
	which := v.Choice("entry", len(c16a.Entries))
	d := 0
	if c16a.Entries[which].HasDepth {
		d = v.Choice("depth", 4)
	}
	// shallow, or more frames above the caller than one capture buffer holds
	pad := []int{0, 40}[v.Choice("pad", 2)]
	c16pad(pad, func() { c16check(v, which, d, true) })
}

//go:noinline
func c16pad(n int, f func()) {
	if n > 0 {
		c16pad(n-1, f)
		return
	}
	f()
}

// H_C16_Algebra: for a symbolic 64-bit depth, the skip value reaching
// runtime.Callers / runtime.Caller equals (frames up to the caller) + depth:
// one solver obligation per entry point, valid for every depth.
func H_C16_Algebra(v *sym.V) {
	which := v.Choice("entry", len(c16a.Entries))
	if !c16a.Entries[which].HasDepth {
		return
	}
	d := v.IntAny("depth")
	if !v.Symbolic() {
		// native replay: an offset error shows at every depth; use depth mod 4
		c16check(v, which, ((d%4)+4)%4, false)
		return
	}
	_, _ = c16a.L0(v, which, d)
	v.Reach("algebra")
}

// H_C16_Repeat: the same call site is reached twice with different callers
// above it (depth 1): each call must name its own caller.
func H_C16_Repeat(v *sym.V) {
	which := v.Choice("entry", len(c16a.Entries))
	ent := c16a.Entries[which]
	if !ent.HasDepth {
		return
	}
	first := v.Choice("first", 2)
	for i := 0; i < 2; i++ {
		var err error
		var dom errors.Domain
		want := "c16b"
		if (i == 0) == (first == 0) {
			err, dom = c16b.L1(v, which, 1)
		} else {
			err, dom = c16x.L1(v, which, 1)
			want = "c16x"
		}
		if ent.Domain {
			v.Assert("repeat-domain@"+ent.Name, filepath.Base(string(dom)) == want)
			continue
		}
		st := errors.GetReportableStackTrace(err)
		for c := err; st == nil && c != nil; c = errors.UnwrapOnce(c) {
			st = errors.GetReportableStackTrace(c)
		}
		if st == nil || len(st.Frames) == 0 {
			v.Assert("repeat-has-stack@"+ent.Name, false)
			continue
		}
		f := st.Frames[len(st.Frames)-1]
		v.Assert("repeat-frame@"+ent.Name, f.Module == "verifh/"+want && f.Function == "L1")
	}
}
