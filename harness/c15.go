package verifh

import (
	"fmt"

	"github.com/cockroachdb/errors"
	"github.com/cockroachdb/errors/errbase"
	"github.com/cockroachdb/redact"
	"verifh/gen"
	"verifh/sym"
	"verifh/wire"
)

// layersOf lists the layers in the order the report visits them: the error, its
// single-cause chain, then multi-cause branches.
func layersOf(e error, acc []error) []error {
	acc = append(acc, e)
	if c := errors.UnwrapOnce(e); c != nil {
		acc = layersOf(c, acc)
	}
	for _, m := range errbase.UnwrapMulti(e) {
		acc = layersOf(m, acc)
	}
	return acc
}

func baseName(p string) string {
	for i := len(p) - 1; i >= 0; i-- {
		if p[i] == '/' {
			return p[i+1:]
		}
	}
	return p
}

func countByte(s string, c byte) int {
	n := 0
	for i := 0; i < len(s); i++ {
		if s[i] == c {
			n++
		}
	}
	return n
}

// H_C15_Report: the Sentry report is faithful to the structure of the error.
func H_C15_Report(v *sym.V) {
	if v.Choice("nil", 2) == 1 {
		ev, ex := errors.BuildSentryReport(nil)
		v.Assert("nil-report", ev == nil && ex == nil)
		return
	}
	g := newG(v, sym.REGNN)
	leaves := gen.Cat(gen.LibLeaves, []gen.Kind{gen.LStd, gen.LPkg, gen.LCtxCanceled, gen.LErrno, gen.LUserPlain, gen.LUserSafeFmt, gen.LHandled, gen.LJoin, gen.LStdJoin})
	b := g.BuildUpTo("e", v.Param("D", 2), leaves, gen.AllWrappers)
	e := b.Err
	tag := ""
	switch v.Choice("stage", 7) {
	case 6:
		// the same error object below two branches of a multi-cause node
		e = errors.Join(errors.Wrap(e, "a"), errors.WithHint(e, "b"))
		tag = "/shared"
	case 5:
		// received from a peer whose types were migrated from another directory:
		// the marks differ from the type names only in the leading path
		enc := wire.Copy(wire.Encode(e))
		wire.Reprefix(enc, -1, "moved/")
		e = wire.Decode(enc)
		tag = "/moved"
	case 4:
		// two stack annotations with identical frames
		e = errors.WithStack(errors.WithStack(e))
		tag = "/twostacks"
	case 1:
		e = wire.Hop(e)
		tag = "/decoded"
	case 2:
		// decoded, then wrapped locally with a new stack
		e = errors.Wrap(wire.Hop(e), "local")
		tag = "/decoded+local"
	case 3:
		// an inner domain below a stack, another domain on top
		e = errors.WithDomain(errors.WithStack(errors.WithDomain(e, errors.NamedDomain("inner"))), errors.NamedDomain("outer"))
		tag = "/domains"
	}
	ev, extras := errors.BuildSentryReport(e)
	layers := layersOf(e, nil)
	// message = [file:line: ] + redacted verbose rendering + composition header + one line per layer
	// the innermost recorded source position: the top frame of the deepest layer
	// (along the single-cause chain) that carries a stack
	prefix := ""
	for c := e; c != nil; c = errors.UnwrapOnce(c) {
		if st := errors.GetReportableStackTrace(c); st != nil && len(st.Frames) > 0 {
			f := st.Frames[len(st.Frames)-1]
			prefix = fmt.Sprintf("%s:%d: ", baseName(f.Filename), f.Lineno)
		}
	}
	prefix += redact.Sprintf("%+v", e).Redact().StripMarkers() + "\n-- report composition:\n"
	v.Assert("message-prefix"+tag, sym.HasPrefix(ev.Message, prefix))
	nStacks := 0
	var withStack []error
	for _, l := range layers {
		if errors.GetReportableStackTrace(l) != nil {
			nStacks++
			withStack = append(withStack, l)
		}
	}
	if len(ev.Message) >= len(prefix) {
		rest := ev.Message[len(prefix):]
		wantLines := len(layers)
		if nStacks > 1 {
			wantLines++ // "(check the extra data payloads)"
		}
		v.Assert("composition-lines"+tag, countByte(rest, '\n')+1 == wantLines)
	}
	// exceptions: one per layer with a stack (one synthetic otherwise), outermost first
	wantExc := nStacks
	if wantExc == 0 {
		wantExc = 1
	}
	v.Assert("exception-count"+tag, len(ev.Exception) == wantExc)
	dom := string(errors.GetDomain(e))
	for _, x := range ev.Exception {
		v.Assert("exception-module"+tag, x.Module == dom)
	}
	if nStacks > 0 && len(ev.Exception) == nStacks {
		for k, l := range withStack {
			st := errors.GetReportableStackTrace(l)
			got := ev.Exception[k].Stacktrace
			ok := got != nil && len(got.Frames) == len(st.Frames)
			if ok {
				for i := range st.Frames {
					ok = ok && got.Frames[i].Function == st.Frames[i].Function && got.Frames[i].Lineno == st.Frames[i].Lineno && got.Frames[i].Filename == st.Frames[i].Filename
				}
			}
			v.Assert("exception-frames"+tag, ok)
		}
	}
	// "error types": one line per layer, innermost first, with type name and mark
	want := ""
	for i := len(layers) - 1; i >= 0; i-- {
		sd := errors.GetSafeDetails(layers[i])
		fm := "*"
		if sd.OriginalTypeName != sd.ErrorTypeMark.FamilyName {
			fm = sd.ErrorTypeMark.FamilyName
		}
		want += fmt.Sprintf("%s (%s::%s)\n", sd.OriginalTypeName, fm, sd.ErrorTypeMark.Extension)
	}
	got, _ := extras["error types"].(string)
	v.Assert("error-types"+tag, got == want)
}
