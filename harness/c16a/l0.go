// Package c16a holds the innermost helper of the C16 call chain: L0 calls the
// library entry point under test, so L0 is the caller at depth 0.
package c16a

import (
	stderrors "errors"

	"github.com/cockroachdb/errors"
	"github.com/cockroachdb/errors/domains"
	"github.com/cockroachdb/errors/errutil"
	"github.com/cockroachdb/errors/withstack"
	"verifh/sym"
)

// Entry describes one stack-capturing or domain-computing API function.
type Entry struct {
	Name     string
	HasDepth bool
	Domain   bool // computes a package domain instead of capturing a stack
}

var Entries = []Entry{
	{"errors.NewWithDepth", true, false},
	{"errors.NewWithDepthf", true, false},
	{"errors.WrapWithDepth", true, false},
	{"errors.WrapWithDepthf", true, false},
	{"errors.AssertionFailedWithDepthf", true, false},
	{"errors.HandleAsAssertionFailureDepth", true, false},
	{"errors.JoinWithDepth", true, false},
	{"errors.WithStackDepth", true, false},
	{"errors.PackageDomainAtDepth", true, true},
	{"errutil.NewWithDepth", true, false},
	{"errutil.NewWithDepthf", true, false},
	{"errutil.WrapWithDepth", true, false},
	{"errutil.WrapWithDepthf", true, false},
	{"errutil.AssertionFailedWithDepthf", true, false},
	{"errutil.HandleAsAssertionFailureDepth", true, false},
	{"errutil.NewAssertionErrorWithWrappedErrDepthf", true, false},
	{"errutil.JoinWithDepth", true, false},
	{"withstack.WithStackDepth", true, false},
	{"domains.PackageDomainAtDepth", true, true},
	{"errors.New", false, false},
	{"errors.Newf", false, false},
	{"errors.Errorf", false, false},
	{"errors.Wrap", false, false},
	{"errors.Wrapf", false, false},
	{"errors.WithStack", false, false},
	{"errors.AssertionFailedf", false, false},
	{"errors.HandleAsAssertionFailure", false, false},
	{"errors.NewAssertionErrorWithWrappedErrf", false, false},
	{"errors.Join", false, false},
	{"errors.PackageDomain", false, true},
	{"errutil.New", false, false},
	{"errutil.Newf", false, false},
	{"errutil.Wrap", false, false},
	{"errutil.Wrapf", false, false},
	{"errutil.AssertionFailedf", false, false},
	{"errutil.HandleAsAssertionFailure", false, false},
	{"errutil.NewAssertionErrorWithWrappedErrf", false, false},
	{"withstack.WithStack", false, false},
	{"domains.PackageDomain", false, true},
	{"domains.New", false, true},
	{"domains.Handled", false, true},
	{"errors.Newf%w", false, false},
	{"errors.Errorf%w", false, false},
	{"errors.NewWithDepthf%w", true, false},
	{"errors.AssertionFailedf%w", false, false},
	{"errutil.NewWithDepthf%w", true, false},
	{"errors.Wrapf%w", false, false},
	{"errors.WithStack(stacked)", false, false},
	{"errors.WithStackDepth(stacked)", true, false},
	{"errors.Wrap(stacked,empty)", false, false},
	{"errors.WrapWithDepth(stacked,empty)", true, false},
	{"errors.Wrap(empty)", false, false},
	{"errors.WrapWithDepth(empty)", true, false},
	{"errutil.WrapWithDepth(empty)", true, false},
}

var base = stderrors.New("base")

// stackedBase builds, in a function of its own, an error whose outermost layer
// already is a stack annotation.
//
//go:noinline
func stackedBase() error { return errors.New("stacked") }

// L0 calls entry number which with depth d. It returns the error built (nil
// for pure domain functions) and the domain computed (empty for stack functions).
//
//go:noinline
func L0(v *sym.V, which int, d int) (error, errors.Domain) {
	e := Entries[which]
	mode := 1 // runtime.Callers
	if e.Domain {
		mode = 2 // runtime.Caller
	}
	var stacked error
	if len(e.Name) > 9 && e.Name[len(e.Name)-9:] == "(stacked)" || len(e.Name) > 15 && e.Name[len(e.Name)-15:] == "(stacked,empty)" {
		stacked = stackedBase() // built before the hook is armed: its own stack capture is not under test
	}
	v.CallerHook("skip@"+e.Name, d, mode)
	defer v.ClearCallerHook()
	switch e.Name {
	case "errors.NewWithDepth":
		return errors.NewWithDepth(d, "m"), ""
	case "errors.NewWithDepthf":
		return errors.NewWithDepthf(d, "m%d", 1), ""
	case "errors.WrapWithDepth":
		return errors.WrapWithDepth(d, base, "m"), ""
	case "errors.WrapWithDepthf":
		return errors.WrapWithDepthf(d, base, "m%d", 1), ""
	case "errors.AssertionFailedWithDepthf":
		return errors.AssertionFailedWithDepthf(d, "m%d", 1), ""
	case "errors.HandleAsAssertionFailureDepth":
		return errors.HandleAsAssertionFailureDepth(d, base), ""
	case "errors.JoinWithDepth":
		return errors.JoinWithDepth(d, base, base), ""
	case "errors.WithStackDepth":
		return errors.WithStackDepth(base, d), ""
	case "errors.PackageDomainAtDepth":
		return nil, errors.PackageDomainAtDepth(d)
	case "errutil.NewWithDepth":
		return errutil.NewWithDepth(d, "m"), ""
	case "errutil.NewWithDepthf":
		return errutil.NewWithDepthf(d, "m%d", 1), ""
	case "errutil.WrapWithDepth":
		return errutil.WrapWithDepth(d, base, "m"), ""
	case "errutil.WrapWithDepthf":
		return errutil.WrapWithDepthf(d, base, "m%d", 1), ""
	case "errutil.AssertionFailedWithDepthf":
		return errutil.AssertionFailedWithDepthf(d, "m%d", 1), ""
	case "errutil.HandleAsAssertionFailureDepth":
		return errutil.HandleAsAssertionFailureDepth(d, base), ""
	case "errutil.NewAssertionErrorWithWrappedErrDepthf":
		return errutil.NewAssertionErrorWithWrappedErrDepthf(d, base, "m%d", 1), ""
	case "errutil.JoinWithDepth":
		return errutil.JoinWithDepth(d, base, base), ""
	case "withstack.WithStackDepth":
		return withstack.WithStackDepth(base, d), ""
	case "domains.PackageDomainAtDepth":
		return nil, domains.PackageDomainAtDepth(d)
	case "errors.New":
		return errors.New("m"), ""
	case "errors.Newf":
		return errors.Newf("m%d", 1), ""
	case "errors.Errorf":
		return errors.Errorf("m%d", 1), ""
	case "errors.Wrap":
		return errors.Wrap(base, "m"), ""
	case "errors.Wrapf":
		return errors.Wrapf(base, "m%d", 1), ""
	case "errors.WithStack":
		return errors.WithStack(base), ""
	case "errors.AssertionFailedf":
		return errors.AssertionFailedf("m%d", 1), ""
	case "errors.HandleAsAssertionFailure":
		return errors.HandleAsAssertionFailure(base), ""
	case "errors.NewAssertionErrorWithWrappedErrf":
		return errors.NewAssertionErrorWithWrappedErrf(base, "m%d", 1), ""
	case "errors.Join":
		return errors.Join(base, base), ""
	case "errors.PackageDomain":
		return nil, errors.PackageDomain()
	case "errutil.New":
		return errutil.New("m"), ""
	case "errutil.Newf":
		return errutil.Newf("m%d", 1), ""
	case "errutil.Wrap":
		return errutil.Wrap(base, "m"), ""
	case "errutil.Wrapf":
		return errutil.Wrapf(base, "m%d", 1), ""
	case "errutil.AssertionFailedf":
		return errutil.AssertionFailedf("m%d", 1), ""
	case "errutil.HandleAsAssertionFailure":
		return errutil.HandleAsAssertionFailure(base), ""
	case "errutil.NewAssertionErrorWithWrappedErrf":
		return errutil.NewAssertionErrorWithWrappedErrf(base, "m%d", 1), ""
	case "withstack.WithStack":
		return withstack.WithStack(base), ""
	case "domains.PackageDomain":
		return nil, domains.PackageDomain()
	case "domains.New":
		e := domains.New("m")
		return e, domains.GetDomain(e)
	case "domains.Handled":
		e := domains.Handled(base)
		return e, domains.GetDomain(e)
	case "errors.WithStack(stacked)":
		return errors.WithStack(stacked), ""
	case "errors.WithStackDepth(stacked)":
		return errors.WithStackDepth(stacked, d), ""
	case "errors.Wrap(stacked,empty)":
		return errors.Wrap(stacked, ""), ""
	case "errors.WrapWithDepth(stacked,empty)":
		return errors.WrapWithDepth(d, stacked, ""), ""
	case "errors.Wrap(empty)":
		return errors.Wrap(base, ""), ""
	case "errors.WrapWithDepth(empty)":
		return errors.WrapWithDepth(d, base, ""), ""
	case "errutil.WrapWithDepth(empty)":
		return errutil.WrapWithDepth(d, base, ""), ""
	case "errors.Newf%w":
		return errors.Newf("m: %w", base), ""
	case "errors.Errorf%w":
		return errors.Errorf("m %w m", base), ""
	case "errors.NewWithDepthf%w":
		return errors.NewWithDepthf(d, "m: %w", base), ""
	case "errors.AssertionFailedf%w":
		return errors.AssertionFailedf("m: %w", base), ""
	case "errutil.NewWithDepthf%w":
		return errutil.NewWithDepthf(d, "%w: m", base), ""
	case "errors.Wrapf%w":
		return errors.Wrapf(base, "m: %w", base), ""
	}
	panic("c16a: unknown entry")
}
