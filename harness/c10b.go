package verifh

import (
	"fmt"

	"github.com/cockroachdb/errors"
	"github.com/cockroachdb/errors/barriers"
	"verifh/gen"
	"verifh/sym"
)

var c10Formats = []string{"", "m", "%%", "a%%b", "100%% full", "%%%%", "50%% of %%"}

// H_C10_Formats: every formatting constructor treats its format string as
// fmt does, also when there are no arguments (escaped percent signs): the
// message contributed is fmt.Sprintf(format), the cause's text is kept.
func H_C10_Formats(v *sym.V) {
	f := c10Formats[v.Choice("format", len(c10Formats))]
	m := fmt.Sprintf(f)
	var base error
	baseText := "u"
	switch v.Choice("base", 3) {
	case 0:
		base = &gen.UserPlain{Msg: "u"}
	case 1:
		base, baseText = errors.New("l"), "l"
	case 2:
		base, baseText = errors.Wrap(errors.New("l"), "w"), "w: l"
	}
	pre := func() string {
		if m == "" {
			return baseText
		}
		return m + ": " + baseText
	}
	var e error
	want := ""
	switch v.Choice("ctor", 13) {
	case 0:
		e, want = errors.Newf(f), m
	case 1:
		e, want = errors.Errorf(f), m
	case 2:
		e, want = errors.NewWithDepthf(0, f), m
	case 3:
		e, want = errors.AssertionFailedf(f), m
	case 4:
		e, want = errors.Wrapf(base, f), pre()
	case 5:
		e, want = errors.WrapWithDepthf(0, base, f), pre()
	case 6:
		e, want = errors.WithMessagef(base, f), pre()
	case 7:
		e, want = errors.NewAssertionErrorWithWrappedErrf(base, f), pre()
	case 8:
		e, want = errors.UnimplementedErrorf(errors.IssueLink{IssueURL: "u"}, f), m
	case 9:
		e, want = errors.WithHintf(base, f), baseText
		hs := errors.GetAllHints(e)
		v.Assert("format-hint", (m == "" && len(hs) == 0) || (len(hs) == 1 && hs[0] == m))
	case 10:
		e, want = errors.WithDetailf(base, f), baseText
		ds := errors.GetAllDetails(e)
		v.Assert("format-detail", (m == "" && len(ds) == 0) || (len(ds) == 1 && ds[0] == m))
	case 11:
		e, want = errors.WithSafeDetails(base, f), baseText
	case 12:
		e, want = barriers.HandledWithMessagef(base, f), m
	}
	v.Assert("format-text", e.Error() == want)
	v.Assert("format-%v", fmt.Sprintf("%v", e) == want)
}
