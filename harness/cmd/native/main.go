// Command native runs harness functions natively (compiled against /repo's
// working tree) on concrete witnesses: replay of counterexamples and
// translator validation of the symbolic engine.
package main

import (
	"encoding/base64"
	"encoding/json"
	"fmt"
	"os"

	"verifh"
	"verifh/sym"
)

type job struct {
	Harness string                 `json:"harness"`
	Inputs  map[string]interface{} `json:"inputs"`
	Params  map[string]int         `json:"params"`
}

type result struct {
	Harness  string         `json:"harness"`
	Obs      []string       `json:"obs"`
	Failures []sym.Failure  `json:"failures"`
	Spurious string         `json:"spurious"`
	Reached  map[string]int `json:"reached"`
}

func b64all(in []string) []string {
	out := make([]string, len(in))
	for i, s := range in {
		out[i] = base64.StdEncoding.EncodeToString([]byte(s))
	}
	return out
}

func main() {
	if len(os.Args) != 3 {
		fmt.Fprintln(os.Stderr, "usage: native jobs.json results.json")
		os.Exit(2)
	}
	b, err := os.ReadFile(os.Args[1])
	if err != nil {
		fmt.Fprintln(os.Stderr, err)
		os.Exit(2)
	}
	var jobs []job
	if err := json.Unmarshal(b, &jobs); err != nil {
		fmt.Fprintln(os.Stderr, err)
		os.Exit(2)
	}
	var results []result
	for _, j := range jobs {
		h, ok := verifh.Harnesses[j.Harness]
		if !ok {
			fmt.Fprintln(os.Stderr, "unknown harness", j.Harness)
			os.Exit(2)
		}
		v := sym.NewNative(sym.DecodeInputs(j.Inputs))
		v.Params = j.Params
		v.Run(h)
		results = append(results, result{Harness: j.Harness, Obs: b64all(v.Obs), Failures: v.Failures, Spurious: v.Spurious, Reached: v.Reached})
	}
	out, _ := json.MarshalIndent(results, "", " ")
	if err := os.WriteFile(os.Args[2], out, 0o644); err != nil {
		fmt.Fprintln(os.Stderr, err)
		os.Exit(2)
	}
}
