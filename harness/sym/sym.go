// Package sym is the harness API. Under the symbolic engine every method of V
// and every helper below is an intrinsic; compiled natively (replay and
// translator validation) the implementations in this file read a witness.
package sym

import (
	"encoding/base64"
	"encoding/json"
	"fmt"
	"os"
	"strings"
)

// Class is a string class (must match the engine's table).
type Class int

const (
	ANY      Class = iota // any byte
	REG                   // 0x20..0x7E plus '\n' interior and isolated
	REGNN                 // 0x20..0x7E
	TOK                   // 0x01..0x08
	NOMARK                // any byte but 0xE2
	LOWER                 // 'a'..'z'
	HOST                  // any byte but 0xE2 and 0x01..0x08
	MARKTOK               // a redaction marker followed by a token byte (4 bytes)
	MARK2                 // marker, printable byte, marker (7 bytes)
	NEARMARK              // U+2038 or U+203B (3 bytes)
	TOKMARK2              // token byte, marker, printable byte, marker, token byte (9 bytes)
)

func isMarker(s string) bool { return s == "\u2039" || s == "\u203a" }

func classOK(c Class, s string) bool {
	switch c {
	case MARKTOK:
		return len(s) == 4 && isMarker(s[:3]) && s[3] >= 1 && s[3] <= 8
	case MARK2:
		return len(s) == 7 && isMarker(s[:3]) && s[3] >= 0x20 && s[3] <= 0x7e && isMarker(s[4:])
	case NEARMARK:
		return s == "\u2038" || s == "\u203b"
	case TOKMARK2:
		return len(s) == 9 && s[0] >= 1 && s[0] <= 8 && isMarker(s[1:4]) && s[4] >= 0x20 && s[4] <= 0x7e && isMarker(s[5:8]) && s[8] >= 1 && s[8] <= 8
	}
	for i := 0; i < len(s); i++ {
		b := s[i]
		switch c {
		case REG:
			if !(b >= 0x20 && b <= 0x7e || b == '\n') {
				return false
			}
		case REGNN:
			if !(b >= 0x20 && b <= 0x7e) {
				return false
			}
		case TOK:
			if !(b >= 1 && b <= 8) {
				return false
			}
		case NOMARK:
			if b == 0xe2 {
				return false
			}
		case LOWER:
			if !(b >= 'a' && b <= 'z') {
				return false
			}
		case HOST:
			if b == 0xe2 || (b >= 1 && b <= 8) {
				return false
			}
		}
	}
	if c == REG && len(s) > 0 {
		if s[0] == '\n' || s[len(s)-1] == '\n' || strings.Contains(s, "\n\n") {
			return false
		}
	}
	return true
}

// Failure describes a failed assertion in native mode.
type Failure struct {
	ID  string
	Msg string
}

type V struct {
	inputs   map[string]interface{}
	names    map[string]int
	Obs      []string
	Failures []Failure
	Spurious string // non-empty: witness violates an assumption / is incomplete
	Reached  map[string]int
	Params   map[string]int
}

// NewNative builds a V backed by concrete inputs.
func NewNative(inputs map[string]interface{}) *V {
	return &V{inputs: inputs, names: map[string]int{}, Reached: map[string]int{}}
}

// LoadWitness reads {"inputs": {...}} from a JSON file.
func LoadWitness(path string) (map[string]interface{}, map[string]interface{}, error) {
	b, err := os.ReadFile(path)
	if err != nil {
		return nil, nil, err
	}
	var w map[string]interface{}
	if err := json.Unmarshal(b, &w); err != nil {
		return nil, nil, err
	}
	in, _ := w["inputs"].(map[string]interface{})
	return DecodeInputs(in), w, nil
}

func DecodeInputs(in map[string]interface{}) map[string]interface{} {
	out := map[string]interface{}{}
	for k, v := range in {
		switch x := v.(type) {
		case float64:
			out[k] = int64(x)
		case json.Number:
			n, _ := x.Int64()
			out[k] = n
		case map[string]interface{}:
			if s, ok := x["b64"].(string); ok {
				d, _ := base64.StdEncoding.DecodeString(s)
				out[k] = string(d)
			}
		case string:
			out[k] = x
		default:
			out[k] = v
		}
	}
	return out
}

type spurious struct{ msg string }

func (v *V) unique(name string) string {
	n := v.names[name]
	v.names[name] = n + 1
	if n == 0 {
		return name
	}
	return fmt.Sprintf("%s#%d", name, n)
}

func (v *V) lookup(name string) interface{} {
	name = v.unique(name)
	x, ok := v.inputs[name]
	if !ok {
		panic(spurious{"missing input " + name})
	}
	return x
}

func (v *V) Symbolic() bool { return false }

// Param returns a bound/tier parameter (engine: from the check configuration).
func (v *V) Param(name string, def int) int {
	if x, ok := v.Params[name]; ok {
		return x
	}
	return def
}

func (v *V) Choice(name string, n int) int {
	k := int(v.lookup(name).(int64))
	if k < 0 || k >= n {
		panic(spurious{"choice out of range " + name})
	}
	return k
}

func (v *V) Bool(name string) bool { return v.lookup(name).(int64) != 0 }

func (v *V) Str(name string, c Class, min, max int) string {
	s := v.lookup(name).(string)
	if c >= MARKTOK {
		min, max = 0, 16
	}
	if len(s) < min || len(s) > max || !classOK(c, s) {
		panic(spurious{"string outside class " + name})
	}
	return s
}

func (v *V) Int(name string, lo, hi int) int {
	x := int(v.lookup(name).(int64))
	if x < lo || x > hi {
		panic(spurious{"int out of range " + name})
	}
	return x
}

// RegistryKey draws a type key from one of the library's live registries
// (0 leaf decoders, 1 wrapper decoders, 2 multi-cause decoders, 3 leaf
// encoders, 4 wrapper encoders) plus one unregistered key. The engine
// enumerates the registry of the current tree; natively the key comes from
// the witness.
func (v *V) RegistryKey(name string, which int) string { return v.lookup(name).(string) }

func (v *V) IntAny(name string) int                    { return int(v.lookup(name).(int64)) }
func (v *V) Uint32(name string) uint32                 { return uint32(v.lookup(name).(int64)) }
func (v *V) Int32(name string) int32                   { return int32(v.lookup(name).(int64)) }
func (v *V) Byte(name string) byte                     { return byte(v.lookup(name).(int64)) }
func (v *V) Freeze()                                   {}
func (v *V) Unfreeze()                                 {}
func (v *V) SharedWrites() int                         { return 0 }
func (v *V) RecoveredPanics() int                      { return 0 }
func (v *V) CallerHook(id string, depth int, mode int) {}
func (v *V) ClearCallerHook()                          {}

func (v *V) Assume(c bool) {
	if !c {
		panic(spurious{"assumption false"})
	}
}

func (v *V) Assert(id string, c bool) {
	v.Reached[id]++
	if !c {
		v.Failures = append(v.Failures, Failure{ID: id})
	}
}

func (v *V) Reach(id string) { v.Reached[id]++ }

func (v *V) Observe(name, val string) { v.Obs = append(v.Obs, name+"="+val) }

// Run executes a harness natively, converting spurious-witness panics and
// escaped panics of the code under test into results.
func (v *V) Run(h func(*V)) {
	defer func() {
		if r := recover(); r != nil {
			if s, ok := r.(spurious); ok {
				v.Spurious = s.msg
				return
			}
			v.Failures = append(v.Failures, Failure{ID: "nopanic", Msg: fmt.Sprint(r)})
		}
	}()
	h(v)
}

// Term-level helpers (plain Go natively).

func Contains(s, sub string) bool { return strings.Contains(s, sub) }
func HasPrefix(s, p string) bool  { return strings.HasPrefix(s, p) }
func HasSuffix(s, p string) bool  { return strings.HasSuffix(s, p) }
func And(a, b bool) bool          { return a && b }
func Or(a, b bool) bool           { return a || b }
func Implies(a, b bool) bool      { return !a || b }
func Not(a bool) bool             { return !a }
func EqStr(a, b string) bool      { return a == b }
func HasByteIn(s string, lo, hi byte) bool {
	for i := 0; i < len(s); i++ {
		if s[i] >= lo && s[i] <= hi {
			return true
		}
	}
	return false
}

// WellFormedMarkers reports whether redaction markers in s are balanced, not
// nested, and balanced within every line.
func WellFormedMarkers(s string) bool {
	open := false
	for i := 0; i < len(s); i++ {
		if i+2 < len(s) && s[i] == 0xe2 && s[i+1] == 0x80 && s[i+2] == 0xb9 {
			if open {
				return false
			}
			open = true
			continue
		}
		if i+2 < len(s) && s[i] == 0xe2 && s[i+1] == 0x80 && s[i+2] == 0xba {
			if !open {
				return false
			}
			open = false
			continue
		}
		if s[i] == '\n' && open {
			return false
		}
	}
	return !open
}
