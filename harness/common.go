package verifh

import (
	"fmt"

	"github.com/cockroachdb/errors"
	"github.com/cockroachdb/errors/errbase"
	"verifh/gen"
	"verifh/sym"
)

func newG(v *sym.V, cls sym.Class) *gen.G {
	return &gen.G{V: v, Cls: cls, ClsSafe: cls, ClsUnsafe: cls, Min: 1, Max: v.Param("maxlen", 2), Budget: v.Param("nsym", 2), Pad: v.Param("pad", 0), Slim: v.Param("reps", 0) > 0}
}

// build draws an error according to the tier parameters:
//
//	(with reps > 0 the last branch of a multi-cause leaf is drawn from two kinds only)
//	D     maximal number of layers
//	reps  1 = leaves and inner wrappers from the representative sets (one kind
//	      per behaviour class), outermost wrapper from the full set;
//	      0 = full sets everywhere
func build(v *sym.V, g *gen.G, name string) *gen.B {
	d := v.Param("D", 2)
	if v.Param("reps", 0) == 1 {
		g.Slim = true
		return g.BuildTiered(name, d, gen.RepLeaves, gen.RepWrappers, gen.AllWrappers)
	}
	if v.Param("reps", 0) == 2 {
		return g.BuildTiered(name, d, gen.RepLeaves, gen.RepWrappers, gen.RepWrappers)
	}
	return g.BuildTiered(name, d, gen.AllLeaves, gen.AllWrappers, gen.AllWrappers)
}

func kindAt(b *gen.B, i int) string {
	if b != nil && i < len(b.Kinds) {
		return b.Kinds[i].String()
	}
	return "node"
}

// compareTrees asserts that a and b have the same cause-tree shape and the same
// Error() text at every node. A text difference is attributed to the innermost
// node that shows it: a node's texts are required to be equal whenever the
// texts of everything below it are. Assert ids carry the Go type of a's node.
func compareTrees(v *sym.V, tag string, m *gen.B, a, b error) {
	cmpTree(v, tag, a, b)
}

func cmpTree(v *sym.V, tag string, a, b error) bool {
	if a == nil || b == nil {
		v.Assert("shape@"+tag, a == nil && b == nil)
		return a == nil && b == nil
	}
	k := fmt.Sprintf("%T", a)
	below := true
	ca, cb := errors.UnwrapOnce(a), errors.UnwrapOnce(b)
	if ca != nil || cb != nil {
		below = cmpTree(v, tag, ca, cb)
	}
	ma, mb := errbase.UnwrapMulti(a), errbase.UnwrapMulti(b)
	v.Assert("branches@"+tag+"/"+k, len(ma) == len(mb))
	if len(ma) == len(mb) {
		for j := range ma {
			below = sym.And(below, cmpTree(v, tag+"/branch", ma[j], mb[j]))
		}
	}
	eq := sym.EqStr(a.Error(), b.Error())
	v.Assert("text@"+tag+"/"+k, sym.Implies(below, eq))
	return sym.And(below, eq)
}
