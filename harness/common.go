package verifh

import (
	"github.com/cockroachdb/errors"
	"github.com/cockroachdb/errors/errbase"
	"verifh/gen"
	"verifh/sym"
)

func newG(v *sym.V, cls sym.Class) *gen.G {
	return &gen.G{V: v, Cls: cls, ClsSafe: cls, ClsUnsafe: cls, Min: 1, Max: v.Param("maxlen", 2), Budget: v.Param("nsym", 2)}
}

func kindAt(b *gen.B, i int) string {
	if b != nil && i < len(b.Kinds) {
		return b.Kinds[i].String()
	}
	return "node"
}

// compareTrees asserts that a and b have the same cause-tree shape and the same
// Error() text at every node.
func compareTrees(v *sym.V, tag string, m *gen.B, a, b error) {
	for i := 0; ; i++ {
		k := kindAt(m, i)
		if a == nil || b == nil {
			v.Assert("shape@"+tag+"/"+k, a == nil && b == nil)
			return
		}
		v.Assert("text@"+tag+"/"+k, a.Error() == b.Error())
		ma, mb := errbase.UnwrapMulti(a), errbase.UnwrapMulti(b)
		v.Assert("branches@"+tag+"/"+k, len(ma) == len(mb))
		if len(ma) == len(mb) {
			for j := range ma {
				var sub *gen.B
				if m != nil && i == len(m.Kinds)-1 && j < len(m.Multi) {
					sub = m.Multi[j]
				}
				compareTrees(v, tag+"/branch", sub, ma[j], mb[j])
			}
		}
		a, b = errors.UnwrapOnce(a), errors.UnwrapOnce(b)
	}
}
