package verifh

import (
	"fmt"

	"github.com/cockroachdb/errors"
	"github.com/cockroachdb/errors/errorspb"
	"github.com/cockroachdb/redact"
	"verifh/gen"
	"verifh/sym"
	"verifh/wire"
)

func tainted(s string) bool { return sym.HasByteIn(s, 1, 8) }

func wirePayloadsClean(v *sym.V, tag string, enc *wire.Enc) {
	var det *errorspb.EncodedErrorDetails
	switch x := enc.Error.(type) {
	case *errorspb.EncodedError_Leaf:
		det = &x.Leaf.Details
		for _, c := range x.Leaf.MultierrorCauses {
			wirePayloadsClean(v, tag, c)
		}
	case *errorspb.EncodedError_Wrapper:
		det = &x.Wrapper.Details
		wirePayloadsClean(v, tag, &x.Wrapper.Cause)
	default:
		return
	}
	for _, p := range det.ReportablePayload {
		v.Assert("wire-payload@"+tag, !tainted(p))
	}
	v.Assert("wire-typename@"+tag, !tainted(det.OriginalTypeName+det.ErrorTypeMark.FamilyName+det.ErrorTypeMark.Extension))
}

// piiFreeOutputs asserts that no taint byte (0x01..0x08) occurs in any output
// the library declares PII-free.
func piiFreeOutputs(v *sym.V, tag string, e error) {
	v.Assert("redact-v@"+tag, !tainted(string(redact.Sprintf("%v", e).Redact())))
	v.Assert("redact-plusv@"+tag, !tainted(string(redact.Sprintf("%+v", e).Redact())))
	for _, p := range errors.GetAllSafeDetails(e) {
		v.Assert("safedetails-type@"+tag, !tainted(p.OriginalTypeName+p.ErrorTypeMark.FamilyName+p.ErrorTypeMark.Extension))
		for _, d := range p.SafeDetails {
			v.Assert("safedetails@"+tag, !tainted(d))
		}
	}
	wirePayloadsClean(v, tag, wire.Encode(e))
	ev, extras := errors.BuildSentryReport(e)
	v.Assert("sentry-message@"+tag, !tainted(ev.Message))
	for _, x := range ev.Exception {
		v.Assert("sentry-exception@"+tag, !tainted(x.Type+"|"+x.Value+"|"+x.Module))
		if x.Stacktrace != nil {
			for _, f := range x.Stacktrace.Frames {
				v.Assert("sentry-frame@"+tag, !tainted(f.Function+f.Module+f.Filename+f.AbsPath))
			}
		}
	}
	for k, x := range extras {
		v.Assert("sentry-extra@"+tag, !tainted(k+"|"+fmt.Sprint(x)))
	}
}

// H_C03_NoLeak: unsafe strings (taint tokens) never reach PII-free outputs;
// locally, after a knowing hop, after an unknowing hop.
func H_C03_NoLeak(v *sym.V) {
	g := newG(v, sym.REGNN)
	g.ClsUnsafe = sym.TOK
	b := build(v, g, "e")
	e := b.Err
	tag := b.Kinds[0].String()
	switch v.Choice("stage", 3) {
	case 1:
		e = wire.Hop(e)
		tag += "/hop"
	case 2:
		enc := wire.Copy(wire.Encode(e))
		wire.Rename(enc, -1, "~unknown")
		e = wire.Decode(enc)
		tag += "/unknowing"
	}
	piiFreeOutputs(v, tag, e)
}

// H_C03_MarkerLead: unsafe strings that begin with a redaction marker rune
// followed by a token byte (the solver picks the marker and the token).
func H_C03_MarkerLead(v *sym.V) {
	g := newG(v, sym.REGNN)
	// a lone marker next to a token, or a balanced pair of markers between two tokens
	g.ClsUnsafe = []sym.Class{sym.MARKTOK, sym.TOKMARK2}[v.Choice("unsafecls", 2)]
	b := g.BuildTiered("e", v.Param("D", 2),
		[]gen.Kind{gen.LStd, gen.LNewfUnsafe, gen.LUserPlain, gen.LUserFmt, gen.LHandledMsg},
		[]gen.Kind{gen.WHint, gen.WDetail, gen.WWrapf, gen.WFmtPrefix, gen.WPkgMsg, gen.WTags, gen.WMark},
		[]gen.Kind{gen.WHint, gen.WDetail, gen.WWrapf, gen.WFmtPrefix, gen.WPkgMsg, gen.WTags, gen.WMark, gen.WSecondary, gen.WPathError})
	e := b.Err
	tag := b.Kinds[0].String() + "/markerlead"
	switch v.Choice("stage", 3) {
	case 1:
		e = wire.Hop(e)
		tag += "/hop"
	case 2:
		enc := wire.Copy(wire.Encode(e))
		wire.Rename(enc, -1, "~unknown")
		e = wire.Decode(enc)
		tag += "/unknowing"
	}
	piiFreeOutputs(v, tag, e)
}
