package verifh

import (
	"fmt"

	"github.com/cockroachdb/errors"
	"github.com/cockroachdb/redact"
	"verifh/gen"
	"verifh/sym"
	"verifh/wire"
)

func stageOf(v *sym.V, e error) (error, string) {
	switch v.Choice("stage", 3) {
	case 1:
		return wire.Hop(e), "/decoded"
	case 2:
		enc := wire.Copy(wire.Encode(e))
		wire.Rename(enc, -1, "~u")
		return wire.Decode(enc), "/opaque"
	}
	return e, ""
}

var verbsVSP = []string{"%v", "%s", "%+v"}

// H_C06_WellFormed: redaction markers in redactable renderings are balanced,
// never nested and balanced within every line, for hostile input strings.
func H_C06_WellFormed(v *sym.V) {
	g := newG(v, sym.Class(v.Param("cls", int(sym.HOST))))
	g.Min = 0
	b := build(v, g, "e")
	e, st := stageOf(v, b.Err)
	verb := verbsVSP[v.Choice("verb", 3)]
	r := string(redact.Sprintf(verb, e))
	v.Assert("wellformed@"+b.Kinds[0].String()+st, sym.WellFormedMarkers(r))
}

// H_C06_Congruent: for marker-free (regular) inputs, stripping the markers from
// the redactable rendering gives the plain rendering through Formattable.
func H_C06_Congruent(v *sym.V) {
	g := newG(v, sym.Class(v.Param("cls", int(sym.REG))))
	b := build(v, g, "e")
	e, st := stageOf(v, b.Err)
	verb := verbsVSP[v.Choice("verb", 3)]
	r := redact.Sprintf(verb, e).StripMarkers()
	p := fmt.Sprintf(verb, errors.Formattable(e))
	v.Assert("congruent@"+b.Kinds[0].String()+st, r == p)
}

// H_C06_Refusal: %q, %x, %X are refused in redactable mode: the rendering is
// fmt's bad-verb notation and carries no input byte.
func H_C06_Refusal(v *sym.V) {
	g := newG(v, sym.REGNN)
	g.ClsUnsafe, g.ClsSafe = sym.TOK, sym.TOK
	b := g.BuildUpTo("e", v.Param("D", 2), gen.AllLeaves, gen.Cat(gen.MsgWrappers, gen.AnnotWrappers))
	e := b.Err
	verb := []string{"%q", "%x", "%X"}[v.Choice("verb", 3)]
	r := redact.Sprintf(verb, e)
	want := "%!" + verb[1:] + "(" + fmt.Sprintf("%T", e) + ")"
	v.Assert("refused@"+verb, r.StripMarkers() == want)
	v.Assert("refused-no-input@"+verb, !tainted(string(r)))
}

// H_C06_Markers: well-formedness for inputs made of two marker runes around a
// printable byte (the solver picks which markers): "\u203ax\u2039", "\u2039x\u2039", ...
func H_C06_Markers(v *sym.V) {
	g := newG(v, sym.MARK2)
	b := g.BuildTiered("e", v.Param("D", 2),
		[]gen.Kind{gen.LStd, gen.LNewfUnsafe, gen.LUserPlain, gen.LNew, gen.LHandledMsg, gen.LJoin},
		[]gen.Kind{gen.WHint, gen.WWrapf, gen.WWrap, gen.WFmtPrefix, gen.WUserFull},
		[]gen.Kind{gen.WHint, gen.WDetail, gen.WWrapf, gen.WWrap, gen.WFmtPrefix, gen.WUserFull, gen.WMark, gen.WSecondary, gen.WTags})
	e, st := stageOf(v, b.Err)
	verb := verbsVSP[v.Choice("verb", 3)]
	r := string(redact.Sprintf(verb, e))
	v.Assert("wellformed-markers@"+b.Kinds[0].String()+st, sym.WellFormedMarkers(r))
}
