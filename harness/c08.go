package verifh

import (
	"context"
	stderrors "errors"
	"io"
	"os"
	"reflect"

	"github.com/cockroachdb/errors"
	"github.com/cockroachdb/errors/errbase"
	"github.com/cockroachdb/errors/errorspb"
	"verifh/gen"
	"verifh/sym"
	"verifh/wire"
)

// (os.ErrNotExist comes early: syscall.ENOENT matches it through its own Is method only)
var sentinelPool = []error{context.Canceled, os.ErrNotExist, context.DeadlineExceeded, io.EOF, stderrors.New("sentinel"), errors.New("libsentinel")}

// wireLeaf builds a leaf wire node with symbolic message, family name and extension.
func wireLeaf(v *sym.V, name string, nameLen int) *wire.Enc {
	return &wire.Enc{Error: &errorspb.EncodedError_Leaf{Leaf: &errorspb.EncodedErrorLeaf{
		Message: v.Str(name+".msg", sym.REGNN, 1, 2),
		Details: errorspb.EncodedErrorDetails{
			OriginalTypeName: "orig/" + name,
			ErrorTypeMark:    errorspb.ErrorTypeMark{FamilyName: v.Str(name+".fam", sym.LOWER, nameLen, nameLen), Extension: v.Str(name+".ext", sym.LOWER, 0, v.Param("extlen", 2))},
		}}}}
}

func wireWrapper(v *sym.V, name string, cause *wire.Enc, nameLen int) *wire.Enc {
	mt := errorspb.MessageType(v.Choice(name+".mt", 2))
	return &wire.Enc{Error: &errorspb.EncodedError_Wrapper{Wrapper: &errorspb.EncodedWrapper{
		Cause:       *cause,
		Message:     v.Str(name+".msg", sym.REGNN, 1, 2),
		MessageType: mt,
		Details: errorspb.EncodedErrorDetails{
			OriginalTypeName: "orig/" + name,
			ErrorTypeMark:    errorspb.ErrorTypeMark{FamilyName: v.Str(name+".fam", sym.LOWER, nameLen, nameLen), Extension: v.Str(name+".ext", sym.LOWER, 0, 1)},
		}}}}
}

func wireErr(v *sym.V, name string, maxLayers, nameLen int) error {
	n := 1 + v.Choice(name+".layers", maxLayers)
	enc := wireLeaf(v, name+".0", nameLen)
	for i := 1; i < n; i++ {
		enc = wireWrapper(v, name+"."+string(rune('0'+i)), enc, nameLen)
	}
	return wire.Decode(enc)
}

func typeChain(e error) []errorspb.ErrorTypeMark {
	var r []errorspb.ErrorTypeMark
	for c := e; c != nil; c = errors.UnwrapOnce(c) {
		r = append(r, errbase.GetTypeMark(c))
	}
	return r
}

// markEqModel: same message and same full sequence of (family, extension), including its length.
func markEqModel(c, r error) bool {
	tc, tr := typeChain(c), typeChain(r)
	if len(tc) != len(tr) {
		return false
	}
	res := sym.EqStr(c.Error(), r.Error())
	for i := range tc {
		res = sym.And(res, sym.And(sym.EqStr(tc[i].FamilyName, tr[i].FamilyName), sym.EqStr(tc[i].Extension, tr[i].Extension)))
	}
	return res
}

// identical is == on errors, false (instead of a panic) for uncomparable dynamic types.
func identical(a, b error) bool {
	if a == nil || b == nil {
		return a == nil && b == nil
	}
	if !reflect.TypeOf(a).Comparable() || !reflect.TypeOf(b).Comparable() {
		return false
	}
	return a == b
}

// isModel is the documented rule for errors without Is methods and without
// explicit marks: some layer of e is identical to r or mark-equivalent to r.
func isModel(e, r error) bool {
	res := false
	for c := e; c != nil; c = errors.UnwrapOnce(c) {
		res = sym.Or(res, sym.Or(identical(c, r), markEqModel(c, r)))
		for _, me := range errbase.UnwrapMulti(c) {
			res = sym.Or(res, isModel(me, r))
		}
	}
	return res
}

// H_C08_Marks: Is decides mark equivalence (wire-built errors with symbolic
// messages, family names and extensions; the solver may make any of them equal).
func H_C08_Marks(v *sym.V) {
	nl := v.Param("namelen", 1)
	e := wireErr(v, "e", v.Param("layers", 2), nl)
	r := wireErr(v, "r", v.Param("layers", 2), nl)
	got := errors.Is(e, r)
	want := isModel(e, r)
	v.Assert("is==model", got == want)
	v.Assert("isany==is", errors.IsAny(e, r) == got)
	v.Assert("reflexive", errors.Is(e, e))
}

// pickRef draws a reference: nil, e itself, e's root cause, a pool sentinel, or
// an independently built leaf with independent symbolic strings.
func pickRef(v *sym.V, g *gen.G, e error) error {
	np := v.Param("pool", 3)
	switch v.Choice("ref", 6) {
	case 5:
		// the reference of a Mark layer inside e, if there is one
		if markRefOf != nil {
			return markRefOf
		}
		return nil
	case 0:
		return nil
	case 1:
		return e
	case 2:
		return errors.UnwrapAll(e)
	case 3:
		return sentinelPool[v.Choice("pool", np)]
	}
	return g.Leaf("r", []gen.Kind{gen.LNew, gen.LStd, gen.LUserNonComparable, gen.LUserIs}).Err
}

// markRefOf is set by the harnesses before pickRef (the generator records it).
var markRefOf error

// H_C08_Laws: totality, reflexivity, IsAny = disjunction, nil handling, Mark.
func H_C08_Laws(v *sym.V) {
	g := newG(v, sym.REGNN)
	b := build(v, g, "e")
	e := b.Err
	markRefOf = b.MarkRef
	r := pickRef(v, g, e)
	r2 := sentinelPool[v.Choice("pool2", 2)]
	is := errors.Is(e, r)
	v.Assert("reflexive", errors.Is(e, e))
	v.Assert("isany", errors.IsAny(e, r, r2) == sym.Or(is, errors.Is(e, r2)))
	v.Assert("nil", errors.Is(nil, r) == (r == nil))
	if r != nil {
		mk := errors.Mark(e, r)
		v.Assert("mark-ref", errors.Is(mk, r))
		v.Assert("mark-keeps", sym.Implies(errors.Is(e, r2), errors.Is(mk, r2)))
		// every reference equivalent to r matches too: a copy of r that crossed the
		// network, and (for the standard library's plain errors) a fresh object with
		// the same text
		hr := wire.Hop(r)
		v.Assert("mark-ref-equivalent-hop", sym.Implies(markEqModel(r, hr), errors.Is(mk, hr)))
		if reflect.TypeOf(r) == reflect.TypeOf(stderrors.New("")) {
			v.Assert("mark-ref-equivalent-fresh", errors.Is(mk, stderrors.New(r.Error())))
		}
	}
}

// H_C08_Monotone: Is(e, r) implies Is(w(e), r) for every wrapper kind w.
func H_C08_Monotone(v *sym.V) {
	g := newG(v, sym.REGNN)
	b := g.Leaf("e", gen.Cat(gen.SimpleLeaves, []gen.Kind{gen.LCtxCanceled, gen.LErrno, gen.LUserNonComparable, gen.LUserIs, gen.LJoin, gen.LHandled}))
	if v.Choice("deep", 2) == 1 {
		b = g.Wrap("e1", b, []gen.Kind{gen.WWrap, gen.WMark, gen.WUserPrefix, gen.WDomain})
	}
	markRefOf = b.MarkRef
	r := pickRef(v, g, b.Err)
	is := errors.Is(b.Err, r)
	w := g.Wrap("w", b, gen.Cat(gen.MsgWrappers, gen.AnnotWrappers, gen.ForeignWrappers))
	v.Assert("monotone@"+w.Kinds[0].String(), sym.Implies(is, errors.Is(w.Err, r)))
}

// H_C08_IsAnyMany: IsAny over reference lists that mix nil, comparable and
// non-comparable references equals the disjunction of Is, and never panics.
func H_C08_IsAnyMany(v *sym.V) {
	g := newG(v, sym.REGNN)
	b := g.Leaf("e", []gen.Kind{gen.LNew, gen.LStd, gen.LUserNonComparable, gen.LUserIs, gen.LCtxCanceled, gen.LJoin})
	if v.Choice("wrapped", 2) == 1 {
		b = g.Wrap("w", b, []gen.Kind{gen.WWrap, gen.WUserPrefix, gen.WMark})
	}
	e := b.Err
	pool := []error{nil, sentinelPool[0], gen.UserNonComparable{Msg: g.StrU("nc")}, &gen.UserIs{Msg: g.StrU("ui")}, errors.UnwrapAll(e), sentinelPool[4]}
	var refs []error
	want := false
	n := 2 + v.Choice("n", 2)
	for i := 0; i < n; i++ {
		r := pool[v.Choice("ref", len(pool))]
		refs = append(refs, r)
		if r != nil {
			want = sym.Or(want, errors.Is(e, r))
		}
	}
	var got bool
	guarded(v, "isany-nopanic", func() { got = errors.IsAny(e, refs...) })
	v.Assert("isany==disjunction", got == want)
}
