package verifh

import (
	"fmt"
	"net"

	"github.com/cockroachdb/errors"
	"github.com/cockroachdb/errors/errbase"
	"verifh/gen"
	"verifh/sym"
	"verifh/wire"
)

// H_C09_VS: %v and %s print exactly Error() (library outermost type directly,
// any error through Formattable), locally and decoded.
// opArrow: some layer of e is a *net.OpError with both a source and an
// address (known finding: its special-case printer writes "src -> addr" where
// Error() has "src->addr"). Assert ids that compare a rendering with Error()
// are replaced by one id for such trees, so that the finding suppresses nothing else.
func opArrow(e error) bool {
	if e == nil {
		return false
	}
	if o, ok := e.(*net.OpError); ok && o.Source != nil && o.Addr != nil {
		return true
	}
	for _, m := range errbase.UnwrapMulti(e) {
		if opArrow(m) {
			return true
		}
	}
	return opArrow(errors.UnwrapOnce(e))
}

const opArrowID = "rendering==Error()@net.OpError(src->addr)"

type c09addr string

func (a c09addr) Network() string { return "tcp" }
func (a c09addr) String() string  { return string(a) }

// H_C09_OpErrorArrow: the known finding on its own, in every tier.
func H_C09_OpErrorArrow(v *sym.V) {
	var e error = &net.OpError{Op: "dial", Net: "tcp", Source: c09addr("s"), Addr: c09addr("a"), Err: errors.New("c")}
	if v.Choice("wrapped", 2) == 1 {
		e = errors.WithStack(e)
	}
	v.Assert(opArrowID, fmt.Sprintf("%v", errors.Formattable(e)) == e.Error())
	// address only, or source only: no finding
	for _, o := range []*net.OpError{
		{Op: "dial", Net: "tcp", Addr: c09addr("a"), Err: errors.New("c")},
		{Op: "dial", Net: "tcp", Source: c09addr("s"), Err: errors.New("c")},
		{Op: "dial", Err: errors.New("c")},
	} {
		v.Assert("formattable%v@*net.OpError", fmt.Sprintf("%v", errors.Formattable(o)) == o.Error())
	}
}

func H_C09_VS(v *sym.V) {
	g := newG(v, sym.REG)
	b := build(v, g, "e")
	e := b.Err
	if v.Choice("decoded", 2) == 1 {
		e = wire.Hop(e)
	}
	k := fmt.Sprintf("%T", e)
	verb := []string{"%v", "%s"}[v.Choice("verb", 2)]
	idF, idD := "formattable"+verb+"@"+k, "direct"+verb+"@"+k
	if opArrow(e) {
		idF, idD = opArrowID, opArrowID
	}
	v.Assert(idF, fmt.Sprintf(verb, errors.Formattable(e)) == e.Error())
	if _, isFormatter := e.(fmt.Formatter); isFormatter {
		v.Assert(idD, fmt.Sprintf(verb, e) == e.Error())
	}
	bad := []string{"%d", "%t", "%e"}[v.Choice("bad", 3)]
	v.Assert("badverb@"+k, fmt.Sprintf(bad, errors.Formattable(e)) == "%!"+bad[1:]+"("+k+")")
}

var specTexts = []string{"a", "x: y", "p%q\"", "tab\there", "\xe2\x80\xb9m\xe2\x80\xba", "é∑"}

// H_C09_Spec: %q, %x, %X and every flag / width / precision variant of
// v, s, q, x, X print what fmt prints for the Error() string.
func H_C09_Spec(v *sym.V) {
	var e error
	t := specTexts[v.Choice("text", len(specTexts))]
	switch v.Choice("shape", 4) {
	case 0:
		e = errors.New(t)
	case 1:
		e = errors.Wrapf(errors.Newf("%s", t), "w%s", "u")
	case 2:
		e = errors.WithHint(&gen.UserPlain{Msg: t}, "h")
	case 3:
		e = errors.Handled(errors.New(t))
	}
	spec := "%"
	if v.Bool("minus") {
		spec += "-"
	}
	if v.Bool("sharp") {
		spec += "#"
	}
	if v.Bool("space") {
		spec += " "
	}
	if v.Bool("zero") {
		spec += "0"
	}
	spec += []string{"", "1", "4", "7", "12"}[v.Choice("width", 5)]
	spec += []string{"", ".0", ".2", ".9"}[v.Choice("prec", 4)]
	verb := []string{"v", "s", "q", "x", "X"}[v.Choice("verb", 5)]
	spec += verb
	if verb == "v" && sym.Contains(spec, "#") {
		return // %#v is a Go-syntax dump, not claimed here
	}
	got := fmt.Sprintf(spec, errors.Formattable(e))
	want := fmt.Sprintf(spec, e.Error())
	v.Observe("spec", spec)
	v.Observe("got", got)
	v.Assert("spec@%"+verb, got == want)
}

// entryLines counts the lines of s that, after indentation and the branch
// marker, start with w (lines of nested renderings start with "| " instead).
func entryLines(s, w string) int {
	n := 0
	start := 0
	for i := 0; i <= len(s); i++ {
		if i == len(s) || s[i] == '\n' {
			line := s[start:i]
			j := 0
			for j < len(line) && line[j] == ' ' {
				j++
			}
			line = line[j:]
			if len(line) >= len("└─ ") && line[:len("└─ ")] == "└─ " {
				line = line[len("└─ "):]
			}
			if len(line) >= len(w) && line[:len(w)] == w {
				n++
			}
			start = i + 1
		}
	}
	return n
}

func countSub(s, sub string) int {
	n := 0
	for i := 0; i+len(sub) <= len(s); i++ {
		if s[i:i+len(sub)] == sub {
			n++
		}
	}
	return n
}

// ownDetail returns what the wrapper kind must show in its %+v entry.
func ownDetail(b *gen.B) (string, bool) {
	switch b.Kinds[0] {
	case gen.WHint:
		return b.Hints[len(b.Hints)-1], true
	case gen.WDetail:
		return b.Details[len(b.Details)-1], true
	case gen.WIssueLink:
		if b.Link != nil && b.Link.IssueURL == "" {
			return "detail: " + b.Link.Detail, true
		}
		if b.Link != nil {
			return "issue: " + b.Link.IssueURL, true
		}
		return "issue: ", true
	case gen.WTelemetry:
		return "keys: [", true
	case gen.WDomain:
		return b.Domain, true
	case gen.WTags:
		return "tk=", true
	case gen.WHTTP:
		return "http code: 404", true
	case gen.WGrpc:
		return "gRPC code: NotFound", true
	case gen.WAssertFail:
		return "assertion failure", true
	case gen.WStack:
		return "attached stack trace", true
	case gen.WSecondary:
		return "secondary error attachment", true
	case gen.WMark:
		return "forced error mark", true
	}
	return "", false
}

// H_C09_PlusV: %+v starts with the Error() text, shows one numbered entry per
// layer, ends with the 'Error types' line naming every layer's Go type in
// order, and each wrapper's own detail appears.
func H_C09_PlusV(v *sym.V) {
	g := newG(v, sym.REGNN)
	b := build(v, g, "e")
	e := b.Err
	multiline := sym.Contains(e.Error(), "\n")
	decoded := v.Choice("decoded", 2) == 1
	if decoded {
		e = wire.Hop(e)
	}
	p := fmt.Sprintf("%+v", errors.Formattable(e))
	v.Observe("plusv", p)
	layers := printOrder(e, nil)
	// head
	idH, idL := "plusv-head", "plusv-head-firstline"
	if opArrow(e) {
		idH, idL = opArrowID, opArrowID
	}
	if !multiline {
		v.Assert(idH, sym.HasPrefix(p, e.Error()+"\n(1)"))
	} else {
		// known finding for multi-line messages: checked separately (H_C09_MultilineHead)
		v.Assert(idL, sym.HasPrefix(p, b.Text[:firstNL(b.Text)]+"\n(1)"))
	}
	// entries at column 0: (1), then "Wraps: (k)" for k = 2..n, no more
	v.Assert("plusv-entries", countSub(p, "\n(1)") == 1)
	for k := 2; k <= len(layers); k++ {
		v.Assert("plusv-entries", entryLines(p, fmt.Sprintf("Wraps: (%d)", k)) == 1)
	}
	v.Assert("plusv-no-extra-entry", entryLines(p, fmt.Sprintf("Wraps: (%d)", len(layers)+1)) == 0)
	// last line: Error types, in visit order (outermost first, then causes, then branches)
	want := "Error types:"
	for i, l := range layers {
		want += fmt.Sprintf(" (%d) %T", i+1, l)
	}
	v.Assert("plusv-error-types", sym.HasSuffix(p, "\n"+want))
	// (a decoded stack trace is shown through the opaque wrapper, not as "attached stack trace")
	if d, ok := ownDetail(b); ok && !(decoded && b.Kinds[0] == gen.WStack) {
		v.Assert("plusv-own-detail@"+b.Kinds[0].String(), sym.Contains(p, d))
	}
}

// printOrder lists the layers in the order %+v numbers them: a node, then its
// multi-cause branches from last to first, then its single cause.
func printOrder(e error, acc []error) []error {
	acc = append(acc, e)
	m := errbase.UnwrapMulti(e)
	for i := len(m) - 1; i >= 0; i-- {
		acc = printOrder(m[i], acc)
	}
	if c := errors.UnwrapOnce(e); c != nil {
		acc = printOrder(c, acc)
	}
	return acc
}

func firstNL(s string) int {
	for i := 0; i < len(s); i++ {
		if s[i] == '\n' {
			return i
		}
	}
	return len(s)
}

// H_C09_MultilineHead: "%+v starts with the Error() text" for a message with
// an interior newline (every Join, any multi-line message).
func H_C09_MultilineHead(v *sym.V) {
	var e error
	switch v.Choice("shape", 3) {
	case 0:
		e = errors.New("p\nq")
	case 1:
		e = errors.Join(errors.New("a"), errors.New("b"))
	case 2:
		e = errors.Wrap(errors.New("c"), "p\nq")
	}
	p := fmt.Sprintf("%+v", e)
	v.Assert("plusv-head@multiline", sym.HasPrefix(p, e.Error()+"\n(1) "))
	// what does hold today for a multi-line leaf or Join: the head is the first line
	// and the remaining lines are shown in the entry of the layer that owns them
	if v.Choice("shape-weak", 1) == 0 && !sym.Contains(fmt.Sprintf("%T", errors.UnwrapOnce(e)), "withPrefix") {
		t := e.Error()
		v.Assert("plusv-head-firstline@multiline", sym.HasPrefix(p, t[:firstNL(t)]+"\n(1)"))
		v.Assert("plusv-rest-in-entry@multiline", sym.Contains(p, t[firstNL(t)+1:]))
	}
}
