package verifh

import (
	"context"
	"fmt"

	"github.com/cockroachdb/errors"
	"github.com/cockroachdb/errors/assert"
	"github.com/cockroachdb/errors/issuelink"
	"github.com/cockroachdb/errors/stdstrings"
	"github.com/cockroachdb/logtags"
	"verifh/sym"
)

func eqList(v *sym.V, id string, got, want []string) {
	v.Assert(id+"-len", len(got) == len(want))
	if len(got) != len(want) {
		return
	}
	for i := range got {
		v.Assert(id, got[i] == want[i])
	}
}

func joinSep(l []string, sep string) string {
	r := ""
	for i, s := range l {
		if i > 0 {
			r += sep
		}
		r += s
	}
	return r
}

// H_C19_Aggregation: hints (de-duplicated, first occurrence wins, empty skipped,
// standard hints included), details, issue links, telemetry keys and context
// tags are aggregated as documented; compared with an independent model.
func H_C19_Aggregation(v *sym.V) {
	maxLen := v.Param("maxlen", 2)
	n := 1 + v.Choice("layers", v.Param("layers", 3))
	var e error
	var hints, details, keys, tagVals []string // innermost first
	var links []errors.IssueLink               // innermost first
	if v.Choice("leaf", 2) == 0 {
		e = errors.New("leaf")
	} else {
		u := v.Str("unimpl.url", sym.REGNN, 0, 1)
		e = errors.UnimplementedError(errors.IssueLink{IssueURL: u, Detail: "ud"}, "unimpl")
		h := issuelink.UnimplementedErrorHint
		if u != "" {
			h += "\nSee: " + u
		} else {
			h += stdstrings.IssueReferral
		}
		hints = append(hints, h)
		links = append(links, errors.IssueLink{IssueURL: u, Detail: "ud"})
	}
	for i := 0; i < n; i++ {
		name := fmt.Sprintf("l%d", i)
		switch v.Choice(name+".kind", 7) {
		case 0:
			m := v.Str(name+".hint", sym.REG, 0, maxLen)
			e = errors.WithHint(e, m)
			hints = append(hints, m)
		case 1:
			m := v.Str(name+".detail", sym.REG, 0, maxLen)
			e = errors.WithDetail(e, m)
			details = append(details, m)
		case 2:
			u := v.Str(name+".url", sym.REGNN, 0, 1)
			// the detail may be that of the unimplemented leaf's link, so that a layer's
			// link can be identical (URL and detail) to the leaf's
			ld := []string{"d", "ud"}[v.Choice(name+".ldetail", 2)]
			e = errors.WithIssueLink(e, errors.IssueLink{IssueURL: u, Detail: ld})
			if u != "" {
				hints = append(hints, "See: "+u)
			} else {
				hints = append(hints, stdstrings.IssueReferral)
			}
			links = append(links, errors.IssueLink{IssueURL: u, Detail: ld})
		case 3:
			k := v.Str(name+".key", sym.REGNN, 0, 1) // the empty key is a key too
			e = errors.WithTelemetry(e, k, "fixed")
			keys = append(keys, k, "fixed")
		case 4:
			e = errors.WithAssertionFailure(e)
			hints = append(hints, assert.AssertionErrorHint+stdstrings.IssueReferral)
		case 5:
			e = errors.WithMessage(e, "msg")
		case 6:
			m := v.Str(name+".tag", sym.REGNN, 1, 1)
			e = errors.WithContextTags(e, logtags.AddTag(context.Background(), "tk", m))
			tagVals = append(tagVals, m)
		}
	}
	// model: hints innermost to outermost, first occurrence wins, empty skipped
	var wantHints []string
	for _, h := range hints {
		if h == "" {
			continue
		}
		dup := false
		for _, w := range wantHints {
			if w == h {
				dup = true
			}
		}
		if !dup {
			wantHints = append(wantHints, h)
		}
	}
	eqList(v, "hints", errors.GetAllHints(e), wantHints)
	v.Assert("flatten-hints", errors.FlattenHints(e) == joinSep(wantHints, "\n--\n"))
	var wantDetails []string
	for _, d := range details {
		if d != "" {
			wantDetails = append(wantDetails, d)
		}
	}
	eqList(v, "details", errors.GetAllDetails(e), wantDetails)
	v.Assert("flatten-details", errors.FlattenDetails(e) == joinSep(wantDetails, "\n--\n"))
	gotLinks := errors.GetAllIssueLinks(e)
	v.Assert("links-len", len(gotLinks) == len(links))
	if len(gotLinks) == len(links) {
		for i := range gotLinks {
			w := links[len(links)-1-i] // outermost first
			v.Assert("links", gotLinks[i].IssueURL == w.IssueURL && gotLinks[i].Detail == w.Detail)
		}
	}
	gotKeys := errors.GetTelemetryKeys(e)
	for _, k := range keys {
		in := false
		for _, g := range gotKeys {
			in = sym.Or(in, g == k)
		}
		v.Assert("telemetry-has", in)
	}
	for _, g := range gotKeys {
		in := false
		for _, k := range keys {
			in = sym.Or(in, g == k)
		}
		v.Assert("telemetry-only", in)
	}
	for i := range gotKeys {
		for j := i + 1; j < len(gotKeys); j++ {
			v.Assert("telemetry-distinct", gotKeys[i] != gotKeys[j])
		}
	}
	tags := errors.GetContextTags(e)
	v.Assert("tags-len", len(tags) == len(tagVals))
	if len(tags) == len(tagVals) {
		for i, b := range tags {
			t := b.Get()
			v.Assert("tags", len(t) == 1 && t[0].Key() == "tk" && t[0].ValueStr() == tagVals[len(tagVals)-1-i])
		}
	}
}

// H_C19_Long: de-duplication over long chains. n hint-bearing layers (plain
// hints and standard issue-link hints) with pairwise distinct texts, except two
// symbolic ones: one at an arbitrary position, one outermost. Both may coincide
// with any other hint of the chain or with each other.
func H_C19_Long(v *sym.V) {
	n := v.Param("n", 10)
	pos := v.Choice("pos", n-1)
	var e error = errors.New("leaf")
	var hints []string
	for i := 0; i < n; i++ {
		var h string
		switch {
		case i == pos:
			h = v.Str("inner", sym.LOWER, 0, 1)
		case i == n-1:
			h = v.Str("outer", sym.LOWER, 0, 1)
		default:
			h = string(rune('a' + i))
		}
		if i%4 == 3 && i != pos && i != n-1 {
			e = errors.WithIssueLink(e, errors.IssueLink{IssueURL: h})
			h = "See: " + h
		} else {
			e = errors.WithHint(e, h)
		}
		hints = append(hints, h)
	}
	var want []string
	for _, h := range hints {
		if h == "" {
			continue
		}
		dup := false
		for _, w := range want {
			if w == h {
				dup = true
			}
		}
		if !dup {
			want = append(want, h)
		}
	}
	eqList(v, "long-hints", errors.GetAllHints(e), want)
	v.Assert("long-flatten-hints", errors.FlattenHints(e) == joinSep(want, "\n--\n"))
}
