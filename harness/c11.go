package verifh

import (
	"context"
	"fmt"

	"github.com/cockroachdb/errors"
	"github.com/cockroachdb/errors/extgrpc"
	"github.com/cockroachdb/errors/exthttp"
	"github.com/cockroachdb/errors/oserror"
	"github.com/cockroachdb/logtags"
	"google.golang.org/grpc/codes"
	"verifh/sym"
	"verifh/wire"
)

func isHidingLayer(typeName string) bool {
	return sym.Contains(typeName, "barriers.") || sym.Contains(typeName, "secondary.")
}

// annotationsEqual: every annotation accessor of the public API agrees on a (before) and b (after).
func annotationsEqual(v *sym.V, tag string, a, b error) {
	accessorsEqual(v, tag, a, b)
	// telemetry keys as sets
	ka, kb := errors.GetTelemetryKeys(a), errors.GetTelemetryKeys(b)
	v.Assert("telemetry-count@"+tag, len(ka) == len(kb))
	for _, x := range ka {
		in := false
		for _, y := range kb {
			in = sym.Or(in, x == y)
		}
		v.Assert("telemetry@"+tag, in)
	}
	// context tags: keys and string values, outermost first
	ta, tb := errors.GetContextTags(a), errors.GetContextTags(b)
	v.Assert("tags-count@"+tag, len(ta) == len(tb))
	if len(ta) == len(tb) {
		for i := range ta {
			x, y := ta[i].Get(), tb[i].Get()
			v.Assert("tags-len@"+tag, len(x) == len(y))
			if len(x) == len(y) {
				for j := range x {
					v.Assert("tags@"+tag, x[j].Key() == y[j].Key() && x[j].ValueStr() == y[j].ValueStr())
				}
			}
		}
	}
	v.Assert("http@"+tag, exthttp.GetHTTPCode(a, 0) == exthttp.GetHTTPCode(b, 0))
	v.Assert("grpc@"+tag, extgrpc.GetGrpcCode(a) == extgrpc.GetGrpcCode(b))
	v.Assert("oserror@"+tag, oserror.IsPermission(a) == oserror.IsPermission(b) && oserror.IsExist(a) == oserror.IsExist(b) &&
		oserror.IsNotExist(a) == oserror.IsNotExist(b) && oserror.IsTimeout(a) == oserror.IsTimeout(b))
	// per-layer safe details (barrier / secondary layers embed a rendering of the hidden error: excluded)
	pa, pb := errors.GetAllSafeDetails(a), errors.GetAllSafeDetails(b)
	v.Assert("safedetails-layers@"+tag, len(pa) == len(pb))
	if len(pa) == len(pb) {
		for i := range pa {
			v.Assert("safedetails-type@"+tag, pa[i].OriginalTypeName == pb[i].OriginalTypeName)
			if isHidingLayer(pa[i].OriginalTypeName) {
				continue
			}
			v.Assert("safedetails-count@"+tag, len(pa[i].SafeDetails) == len(pb[i].SafeDetails))
			if len(pa[i].SafeDetails) == len(pb[i].SafeDetails) {
				for j := range pa[i].SafeDetails {
					v.Assert("safedetails@"+tag+"/"+pa[i].OriginalTypeName, pa[i].SafeDetails[j] == pb[i].SafeDetails[j])
				}
			}
		}
	}
	// reportable stack traces, layer by layer
	ca, cb := a, b
	for ca != nil && cb != nil {
		sa, sb := errors.GetReportableStackTrace(ca), errors.GetReportableStackTrace(cb)
		v.Assert("stack-presence@"+tag, (sa == nil) == (sb == nil))
		if sa != nil && sb != nil {
			v.Assert("stack-frames@"+tag, len(sa.Frames) == len(sb.Frames))
			if len(sa.Frames) == len(sb.Frames) {
				for i := range sa.Frames {
					x, y := sa.Frames[i], sb.Frames[i]
					v.Assert("stack-frame@"+tag, x.Function == y.Function && x.Module == y.Module && x.Filename == y.Filename && x.Lineno == y.Lineno)
				}
			}
		}
		ca, cb = errors.UnwrapOnce(ca), errors.UnwrapOnce(cb)
	}
	f1, l1, fn1, ok1 := errors.GetOneLineSource(a)
	f2, l2, fn2, ok2 := errors.GetOneLineSource(b)
	v.Assert("source@"+tag, f1 == f2 && l1 == l2 && fn1 == fn2 && ok1 == ok2)
}

// deepStack attaches a stack trace captured n calls further down.
//
//go:noinline
func deepStack(n int, e error) error {
	if n == 0 {
		return errors.WithStack(e)
	}
	return deepStack(n-1, e)
}

// H_C11_Annotations: annotations are identical before and after 1 and 2 hops
// between processes that know the types.
func H_C11_Annotations(v *sym.V) {
	g := newG(v, sym.Class(v.Param("cls", int(sym.REG))))
	b := build(v, g, "e")
	e := b.Err
	if v.Choice("deepstack", 2) == 1 {
		e = deepStack(20, e)
	}
	e1 := wire.Hop(e)
	e2 := wire.Hop(e1)
	annotationsEqual(v, "hop1", e, e1)
	annotationsEqual(v, "hop2", e, e2)
}

// H_C11_Codes: HTTP code (symbolic int in 100..999) and gRPC code (symbolic
// uint32) survive k = 1, 2 hops, also below and above other wrappers.
func H_C11_Codes(v *sym.V) {
	http := v.Int("http", 100, 999)
	grpc := v.Uint32("grpc")
	var e error = errors.New("x")
	switch v.Choice("shape", 3) {
	case 0:
		e = exthttp.WrapWithHTTPCode(e, http)
		e = extgrpc.WrapWithGrpcCode(e, codes.Code(grpc))
	case 1:
		e = extgrpc.WrapWithGrpcCode(e, codes.Code(grpc))
		e = errors.Wrap(exthttp.WrapWithHTTPCode(e, http), "w")
	case 2:
		e = exthttp.WrapWithHTTPCode(errors.WithHint(e, "h"), http)
		e = errors.WithDetail(extgrpc.WrapWithGrpcCode(e, codes.Code(grpc)), "d")
	}
	c := e
	for k := 1; k <= 2; k++ {
		c = wire.Hop(c)
		v.Assert(fmt.Sprintf("http@hop%d", k), exthttp.GetHTTPCode(c, 0) == http)
		v.Assert(fmt.Sprintf("grpc@hop%d", k), uint32(extgrpc.GetGrpcCode(c)) == grpc)
	}
	v.Assert("text", c.Error() == e.Error())
}

// H_C11_Many: the number of items carried by one annotation layer is a
// dimension of its own: a telemetry layer with N keys, a context with N tags,
// N hint and N detail layers (N from 1 to beyond 16 / 32 / 64; one key, one tag
// value and one hint symbolic, the others concrete and pairwise distinct) are
// identical before and after hops 1 and 2.
func H_C11_Many(v *sym.V) {
	sizes := []int{1, 2, 16, 17, 33, 65}
	n := sizes[v.Choice("n", len(sizes))]
	symAt := 0
	if n > 1 && v.Choice("symlast", 2) == 1 {
		symAt = n - 1
	}
	sv := v.Str("s", sym.REGNN, 1, 1)
	item := func(prefix string, i int) string {
		if i == symAt {
			return prefix + sv
		}
		return fmt.Sprintf("%s%03d", prefix, i)
	}
	var e error = errors.New("x")
	switch v.Choice("kind", 4) {
	case 0:
		keys := make([]string, n)
		for i := range keys {
			keys[i] = item("k", i)
		}
		e = errors.WithTelemetry(e, keys...)
	case 1:
		ctx := context.Background()
		for i := 0; i < n; i++ {
			ctx = logtags.AddTag(ctx, fmt.Sprintf("t%03d", i), item("v", i))
		}
		e = errors.WithContextTags(e, ctx)
	case 2:
		for i := 0; i < n; i++ {
			e = errors.WithHint(e, item("h", i))
		}
	case 3:
		for i := 0; i < n; i++ {
			e = errors.WithDetail(e, item("d", i))
		}
	}
	e = errors.Wrap(e, "w")
	e1 := wire.Hop(e)
	e2 := wire.Hop(e1)
	annotationsEqual(v, "hop1", e, e1)
	annotationsEqual(v, "hop2", e, e2)
	v.Assert("many-keys@hop1", len(errors.GetTelemetryKeys(e1)) == len(errors.GetTelemetryKeys(e)))
}
