package verifh

import (
	"fmt"

	"github.com/cockroachdb/errors"
	"github.com/cockroachdb/errors/errorspb"
	"verifh/gen"
	"verifh/sym"
	"verifh/wire"
)

// wireDetails lists, outermost first along the single-cause chain, what the
// origin put on the wire as type name and safe details of each layer.
func wireDetails(enc *wire.Enc) []errors.SafeDetailPayload {
	var r []errors.SafeDetailPayload
	for enc != nil {
		switch x := enc.Error.(type) {
		case *errorspb.EncodedError_Leaf:
			r = append(r, errors.SafeDetailPayload{OriginalTypeName: x.Leaf.Details.OriginalTypeName, SafeDetails: x.Leaf.Details.ReportablePayload})
			enc = nil
		case *errorspb.EncodedError_Wrapper:
			r = append(r, errors.SafeDetailPayload{OriginalTypeName: x.Wrapper.Details.OriginalTypeName, SafeDetails: x.Wrapper.Details.ReportablePayload})
			enc = &x.Wrapper.Cause
		default:
			enc = nil
		}
	}
	return r
}

// safeDetailsKept: the unknowing process reports, per layer, the type name and
// the safe details the origin sent.
func safeDetailsKept(v *sym.V, tag string, sent *wire.Enc, b error, mask int) {
	pa, pb := wireDetails(sent), errors.GetAllSafeDetails(b)
	v.Assert("details-layers@"+tag, len(pa) == len(pb))
	if len(pa) != len(pb) {
		return
	}
	for i := range pa {
		if mask&(1<<uint(i)) == 0 {
			continue // a layer the process knows is rebuilt as its real type (covered by C11)
		}
		v.Assert("details-typename@"+tag, pa[i].OriginalTypeName == pb[i].OriginalTypeName)
		v.Assert("details-count@"+tag, len(pa[i].SafeDetails) == len(pb[i].SafeDetails))
		if len(pa[i].SafeDetails) == len(pb[i].SafeDetails) {
			for j := range pa[i].SafeDetails {
				v.Assert("details@"+tag, pa[i].SafeDetails[j] == pb[i].SafeDetails[j])
			}
		}
	}
}

func joinStrings(l []string) string {
	r := ""
	for _, s := range l {
		r += s + "\x00"
	}
	return r
}

// accessorsEqual compares the annotation accessors of a and b.
func accessorsEqual(v *sym.V, tag string, a, b error) {
	v.Assert("hints@"+tag, joinStrings(errors.GetAllHints(a)) == joinStrings(errors.GetAllHints(b)))
	v.Assert("details-acc@"+tag, joinStrings(errors.GetAllDetails(a)) == joinStrings(errors.GetAllDetails(b)))
	v.Assert("domain@"+tag, errors.GetDomain(a) == errors.GetDomain(b))
	v.Assert("flags@"+tag, errors.HasAssertionFailure(a) == errors.HasAssertionFailure(b) &&
		errors.HasUnimplementedError(a) == errors.HasUnimplementedError(b) && errors.HasIssueLink(a) == errors.HasIssueLink(b))
	la, lb := errors.GetAllIssueLinks(a), errors.GetAllIssueLinks(b)
	v.Assert("links-count@"+tag, len(la) == len(lb))
	if len(la) == len(lb) {
		for i := range la {
			v.Assert("links@"+tag, la[i].IssueURL == lb[i].IssueURL && la[i].Detail == lb[i].Detail)
		}
	}
}

// H_C04_Unknowing: an intermediate process that does not know a subset of the
// types (wire renaming) shows the same text, keeps type names and safe details,
// re-encodes exactly what it received, and a later knowing receiver gets the
// same error as over a direct hop.
func H_C04_Unknowing(v *sym.V) {
	g := newG(v, sym.REG)
	// Proto-message leaves are left out: renaming the family name alone does not
	// make their type unknown to the receiver (its proto type stays registered).
	leaves := gen.Cat(gen.LibLeaves, []gen.Kind{gen.LStd, gen.LPkg, gen.LCtxCanceled, gen.LCtxDeadline, gen.LOsNotExist, gen.LEOF, gen.LErrno,
		gen.LUserPlain, gen.LUserFmt, gen.LUserSafeFmt, gen.LUserNonComparable, gen.LUserIs}, gen.BarrierLeaves, gen.MultiLeaves)
	var b *gen.B
	if v.Param("reps", 0) == 1 {
		b = g.BuildTiered("e", v.Param("D", 2), gen.RepLeaves, gen.RepWrappers, gen.AllWrappers)
	} else {
		b = g.BuildTiered("e", v.Param("D", 2), leaves, gen.AllWrappers, gen.AllWrappers)
	}
	e := b.Err
	// The message the intermediary receives comes from a process that itself
	// received the error (one knowing hop): from the first hop on, re-encoding by a
	// knowing process is a fixpoint (C01), so every difference seen below is due to
	// the types the intermediary does not know.
	orig := e
	e = wire.Hop(e)
	enc := wire.Copy(wire.Encode(e))
	n := wire.Count(enc)
	var mask int
	if v.Param("masks", 0) == 1 {
		// reduced set of knowledge masks: every single layer unknown, or all of them
		k := v.Choice("mask1", n+1)
		if k == n {
			mask = (1 << uint(n)) - 1
		} else {
			mask = 1 << uint(k)
		}
	} else {
		mask = 1 + v.Choice("mask", (1<<uint(n))-1)
	}
	renamed := wire.Copy(enc)
	wire.Rename(renamed, mask, "~u")
	u := wire.Decode(renamed)
	compareTrees(v, "unknowing", b, orig, u) // same text and shape as at the origin
	safeDetailsKept(v, b.Kinds[0].String(), enc, u, mask)
	re := wire.Copy(wire.Encode(u))
	v.Assert("reencode@"+b.Kinds[0].String(), wire.Equal(re, renamed))
	wire.Unrename(re, "~u")
	k := wire.Decode(re)
	direct := wire.Decode(wire.Copy(enc))
	compareTrees(v, "later", b, direct, k)
	v.Assert("later-is", sym.And(errors.Is(k, direct), errors.Is(direct, k)))
	accessorsEqual(v, "later", direct, k)
	v.Assert("later-plusv", fmt.Sprintf("%+v", k) == fmt.Sprintf("%+v", direct))
}

// H_C04_BarrierSafeMessage: a barrier whose hidden message has no unsafe part
// reads the same at a process that does not know the barrier type. (Barriers
// with unsafe message parts are the recorded known finding of C04; this keeps
// the marker-free case enforced.)
func H_C04_BarrierSafeMessage(v *sym.V) {
	m := v.Str("m", sym.REG, 1, v.Param("maxlen", 2))
	var e error
	switch v.Choice("kind", 3) {
	case 0:
		e = errors.Handled(errors.New(m))
	case 1:
		e = errors.Handled(errors.Wrap(errors.New(m), "w"))
	case 2:
		e = errors.HandledInDomain(errors.New(m), errors.NamedDomain("d"))
	}
	enc := wire.Copy(wire.Encode(e))
	wire.Rename(enc, -1, "~u")
	u := wire.Decode(enc)
	v.Assert("text@barrier-safe-message", u.Error() == e.Error())
	re := wire.Copy(wire.Encode(u))
	v.Assert("reencode@barrier-safe-message", wire.Equal(re, enc))
}
