// Package gen builds errors from symbolic recipes: which constructor (v.Choice)
// and which strings (symbolic bytes). It also computes, alongside, the
// reference model of what the documented behaviour is (text, hints, ...).
package gen

import (
	"context"
	stderrors "errors"
	"fmt"
	"io"
	"net"
	"os"
	"syscall"

	"github.com/cockroachdb/errors"
	"github.com/cockroachdb/errors/errorspb"
	"github.com/cockroachdb/errors/extgrpc"
	"github.com/cockroachdb/errors/exthttp"
	"github.com/cockroachdb/logtags"
	pkgerrors "github.com/pkg/errors"
	"google.golang.org/grpc/codes"
	"verifh/sym"
)

// Kind names a constructor of the alphabet.
type Kind int

const (
	// leaves
	LNew Kind = iota
	LNewfUnsafe
	LNewfSafe
	LStd
	LPkg
	LCtxCanceled
	LCtxDeadline
	LOsNotExist
	LEOF
	LErrno
	LUnimpl
	LAssert
	LUserPlain
	LUserFmt
	LUserSafeFmt
	LUserNonComparable
	LUserIs
	LProto
	LHandled
	LHandledMsg
	LJoin
	LStdJoin
	LFmtMulti
	LStdJoin1
	LUserMulti1
	LJoinNested
	LJoinWide
	// wrappers
	WMessage
	WWrap
	WWrapf
	WNewfW
	WStack
	WHint
	WDetail
	WSafeDetails
	WTelemetry
	WDomain
	WIssueLink
	WTags
	WAssertFail
	WMark
	WSecondary
	WHTTP
	WGrpc
	WPkgMsg
	WPkgStack
	WFmtPrefix
	WFmtSuffix
	WPathError
	WLinkError
	WSyscallError
	WOpError
	WUserPrefix
	WUserFull
	WUserFmt
	WUserSafeFmt
	WHandledDomain
	WNewfWExtra
	WUserGlue
	numKinds
)

var kindNames = [...]string{"New", "NewfUnsafe", "NewfSafe", "Std", "Pkg", "CtxCanceled", "CtxDeadline", "OsNotExist", "EOF", "Errno", "Unimpl", "Assert",
	"UserPlain", "UserFmt", "UserSafeFmt", "UserNonComparable", "UserIs", "Proto", "Handled", "HandledMsg", "Join", "StdJoin", "FmtMulti", "StdJoin1", "UserMulti1", "JoinNested", "JoinWide",
	"WithMessage", "Wrap", "Wrapf", "NewfW", "WithStack", "WithHint", "WithDetail", "WithSafeDetails", "WithTelemetry", "WithDomain", "WithIssueLink", "WithTags",
	"WithAssertionFailure", "Mark", "WithSecondary", "HTTPCode", "GrpcCode", "PkgWithMessage", "PkgWithStack", "FmtPrefix", "FmtSuffix", "PathError", "LinkError",
	"SyscallError", "OpError", "UserPrefix", "UserFull", "UserFmt", "UserSafeFmt", "HandledInDomain", "NewfWExtra", "UserGlue"}

func (k Kind) String() string { return kindNames[k] }

// Standard kind sets.
var (
	LibLeaves     = []Kind{LNew, LNewfUnsafe, LNewfSafe, LUnimpl, LAssert}
	ForeignLeaves = []Kind{LStd, LPkg, LCtxCanceled, LCtxDeadline, LOsNotExist, LEOF, LErrno, LUserPlain, LUserFmt, LUserSafeFmt, LUserNonComparable, LUserIs, LProto}
	BarrierLeaves = []Kind{LHandled, LHandledMsg}
	MultiLeaves   = []Kind{LJoin, LStdJoin, LFmtMulti, LStdJoin1, LUserMulti1, LJoinNested, LJoinWide}
	SimpleLeaves  = []Kind{LNew, LNewfUnsafe, LStd, LUserPlain}
	BranchLeaves  = []Kind{LNew, LNewfUnsafe, LStd, LUserPlain, LCtxCanceled}

	MsgWrappers     = []Kind{WMessage, WWrap, WWrapf, WNewfW, WNewfWExtra}
	AnnotWrappers   = []Kind{WStack, WHint, WDetail, WSafeDetails, WTelemetry, WDomain, WIssueLink, WTags, WAssertFail, WMark, WSecondary, WHTTP, WGrpc}
	ForeignWrappers = []Kind{WPkgMsg, WPkgStack, WFmtPrefix, WFmtSuffix, WPathError, WLinkError, WSyscallError, WOpError, WUserPrefix, WUserFull, WUserFmt, WUserSafeFmt, WUserGlue}
)

func Cat(sets ...[]Kind) []Kind {
	var r []Kind
	for _, s := range sets {
		r = append(r, s...)
	}
	return r
}

var AllLeaves = Cat(LibLeaves, ForeignLeaves, BarrierLeaves, MultiLeaves)
var AllWrappers = Cat(MsgWrappers, AnnotWrappers, ForeignWrappers, []Kind{WHandledDomain})

// ---------------------------------------------------------------------------
// user-defined types (not registered with the library)

type UserPlain struct{ Msg string }

func (e *UserPlain) Error() string { return e.Msg }

type UserFmt struct{ Msg string }

func (e *UserFmt) Error() string                 { return e.Msg }
func (e *UserFmt) Format(s fmt.State, verb rune) { errors.FormatError(e, s, verb) }
func (e *UserFmt) FormatError(p errors.Printer) error {
	p.Print(e.Msg)
	return nil
}

type UserSafeFmt struct{ Msg string }

func (e *UserSafeFmt) Error() string                 { return e.Msg }
func (e *UserSafeFmt) Format(s fmt.State, verb rune) { errors.FormatError(e, s, verb) }
func (e *UserSafeFmt) SafeFormatError(p errors.Printer) error {
	p.Print(e.Msg) // unsafe: not wrapped in Safe
	return nil
}

// UserNonComparable is a value-type error that cannot be compared with ==.
type UserNonComparable struct {
	Msg  string
	Tags []string
}

func (e UserNonComparable) Error() string { return e.Msg }

// UserIs has its own Is method (matches any *UserIs with the same message).
type UserIs struct{ Msg string }

func (e *UserIs) Error() string { return e.Msg }
func (e *UserIs) Is(o error) bool {
	x, ok := o.(*UserIs)
	return ok && x.Msg == e.Msg
}

type UserPrefix struct {
	Msg   string
	Cause error
}

func (w *UserPrefix) Error() string { return w.Msg + ": " + w.Cause.Error() }
func (w *UserPrefix) Unwrap() error { return w.Cause }

// UserGlue puts its message directly in front of the cause's text (whatever
// separator there is belongs to the message).
type UserGlue struct {
	Msg   string
	Cause error
}

func (w *UserGlue) Error() string { return w.Msg + w.Cause.Error() }
func (w *UserGlue) Unwrap() error { return w.Cause }

// UserFull's message does not embed the cause's text.
type UserFull struct {
	Msg   string
	Cause error
}

func (w *UserFull) Error() string { return w.Msg }
func (w *UserFull) Cause_() error { return w.Cause }
func (w *UserFull) Unwrap() error { return w.Cause }

type UserWFmt struct {
	Msg   string
	Cause error
}

func (w *UserWFmt) Error() string                 { return w.Msg + ": " + w.Cause.Error() }
func (w *UserWFmt) Cause_() error                 { return w.Cause }
func (w *UserWFmt) Unwrap() error                 { return w.Cause }
func (w *UserWFmt) Format(s fmt.State, verb rune) { errors.FormatError(w, s, verb) }
func (w *UserWFmt) FormatError(p errors.Printer) error {
	p.Print(w.Msg)
	return w.Cause
}

type UserWSafeFmt struct {
	Msg   string
	Cause error
}

func (w *UserWSafeFmt) Error() string                 { return w.Msg + ": " + w.Cause.Error() }
func (w *UserWSafeFmt) Unwrap() error                 { return w.Cause }
func (w *UserWSafeFmt) Format(s fmt.State, verb rune) { errors.FormatError(w, s, verb) }
func (w *UserWSafeFmt) SafeFormatError(p errors.Printer) error {
	p.Print(w.Msg)
	return w.Cause
}

// UserMulti is an unregistered multi-cause type.
type UserMulti struct {
	Msg  string
	Errs []error
}

func (m *UserMulti) Error() string   { return m.Msg }
func (m *UserMulti) Unwrap() []error { return m.Errs }

type addr struct{ s string }

func (a addr) Network() string { return "tcp" }
func (a addr) String() string  { return a.s }

// ---------------------------------------------------------------------------

// G holds generation options.
type G struct {
	V         *sym.V
	Cls       sym.Class // class of message strings
	ClsSafe   sym.Class // class of strings entering through safe channels
	ClsUnsafe sym.Class // class of strings entering through unsafe channels
	Min       int
	Max       int // max length of each symbolic string
	Budget    int // remaining symbolic strings; afterwards concrete fillers are used
	Pad       int // every drawn string is followed by this many concrete filler bytes
	Slim      bool // representative tiers: the last branch of a multi-cause leaf is drawn from two kinds only
	ctr       int
}

// B describes a built error together with its reference model.
type B struct {
	Err     error
	Text    string   // model of Error()
	Kinds   []Kind   // outermost first (visible single-cause chain)
	Leaf    error    // model of UnwrapAll
	Hints   []string // model of GetAllHints before de-duplication, innermost first
	Details []string
	Unsafe  []string // strings that entered through unsafe channels
	Safe    []string // strings that entered through safe channels
	Multi   []*B     // branches if the root of this B is a multi-cause node
	HTTP    int      // outermost HTTP code or 0
	Grpc    uint32
	HasGrpc bool
	Domain  string            // model of GetDomain: "" = not tracked
	Link    *errors.IssueLink // the issue link, if the outermost layer is one
	MarkRef error             // the reference of the innermost-built Mark layer, if any
}

// StrS draws a string for a channel the library treats as safe, StrU for an unsafe channel.
func (g *G) StrS(name string) string { return g.str(name, g.ClsSafe) }
func (g *G) StrU(name string) string { return g.str(name, g.ClsUnsafe) }

// Str draws a symbolic string of the default class.
func (g *G) Str(name string) string { return g.str(name, g.Cls) }

// str draws a symbolic string (or a concrete filler once the budget is spent).
func (g *G) str(name string, cls sym.Class) string {
	g.ctr++
	if g.Budget <= 0 {
		return fmt.Sprintf("k%d", g.ctr)
	}
	g.Budget--
	min := g.Min
	if min == 0 {
		min = 1
	}
	s := g.V.Str(name, cls, min, g.Max)
	if g.Pad > 0 {
		pad := make([]byte, g.Pad)
		for i := range pad {
			pad[i] = 'x'
		}
		s += string(pad)
	}
	return s
}

func (g *G) lastBranch() []Kind {
	if g.Slim {
		return []Kind{LNew, LCtxCanceled}
	}
	return BranchLeaves
}

func (g *G) pick(name string, kinds []Kind) Kind {
	return kinds[g.V.Choice(name, len(kinds))]
}

// Leaf builds a leaf of one of the given kinds.
func (g *G) Leaf(name string, kinds []Kind) *B {
	k := g.pick(name+".k", kinds)
	return g.LeafOf(name, k)
}

func (g *G) LeafOf(name string, k Kind) *B {
	b := &B{Kinds: []Kind{k}}
	switch k {
	case LNew:
		m := g.StrS(name + ".m")
		b.Err, b.Text = errors.New(m), m
		b.Safe = []string{m}
	case LNewfUnsafe:
		m := g.StrU(name + ".m")
		b.Err, b.Text = errors.Newf("%s", m), m
		b.Unsafe = []string{m}
	case LNewfSafe:
		m := g.StrS(name + ".m")
		b.Err, b.Text = errors.Newf("x%sy", errors.Safe(m)), "x"+m+"y"
		b.Safe = []string{m}
	case LStd:
		m := g.StrU(name + ".m")
		b.Err, b.Text = stderrors.New(m), m
		b.Unsafe = []string{m}
	case LPkg:
		m := g.StrU(name + ".m")
		b.Err, b.Text = pkgerrors.New(m), m
		b.Unsafe = []string{m}
	case LCtxCanceled:
		b.Err, b.Text = context.Canceled, "context canceled"
	case LCtxDeadline:
		b.Err, b.Text = context.DeadlineExceeded, "context deadline exceeded"
	case LOsNotExist:
		b.Err, b.Text = os.ErrNotExist, "file does not exist"
	case LEOF:
		b.Err, b.Text = io.EOF, "EOF"
	case LErrno:
		b.Err, b.Text = syscall.ENOENT, "no such file or directory"
	case LUnimpl:
		m := g.StrU(name + ".m") // "for now, msg is non-reportable"
		b.Err, b.Text = errors.UnimplementedError(errors.IssueLink{IssueURL: "http://u/1"}, m), m
		b.Unsafe = []string{m}
	case LAssert:
		m := g.StrU(name + ".m")
		b.Err, b.Text = errors.AssertionFailedf("%s", m), m
		b.Unsafe = []string{m}
	case LUserPlain:
		m := g.StrU(name + ".m")
		b.Err, b.Text = &UserPlain{m}, m
		b.Unsafe = []string{m}
	case LUserFmt:
		m := g.StrU(name + ".m")
		b.Err, b.Text = &UserFmt{m}, m
		b.Unsafe = []string{m}
	case LUserSafeFmt:
		m := g.StrU(name + ".m")
		b.Err, b.Text = &UserSafeFmt{m}, m
		b.Unsafe = []string{m}
	case LUserNonComparable:
		m := g.StrU(name + ".m")
		b.Err, b.Text = UserNonComparable{Msg: m, Tags: []string{"t"}}, m
		b.Unsafe = []string{m}
	case LUserIs:
		m := g.StrU(name + ".m")
		b.Err, b.Text = &UserIs{m}, m
		b.Unsafe = []string{m}
	case LProto:
		b.Err, b.Text = &errorspb.TestError{}, "test error"
	case LHandled:
		in := g.Leaf(name+".h", SimpleLeaves)
		b.Err, b.Text = errors.Handled(in.Err), in.Text
		b.Unsafe, b.Safe = in.Unsafe, in.Safe
	case LHandledMsg:
		in := g.Leaf(name+".h", SimpleLeaves)
		m := g.StrU(name + ".m")
		b.Err, b.Text = errors.HandledWithMessage(in.Err, m), m
		b.Unsafe = append(append([]string{}, in.Unsafe...), m)
		b.Safe = in.Safe
	case LJoin:
		x := g.Leaf(name+".a", BranchLeaves)
		y := g.Leaf(name+".b", g.lastBranch())
		b.Err, b.Text = errors.Join(x.Err, y.Err), x.Text+"\n"+y.Text
		b.Multi = []*B{x, y}
		b.Unsafe = append(append([]string{}, x.Unsafe...), y.Unsafe...)
		b.Safe = append(append([]string{}, x.Safe...), y.Safe...)
	case LStdJoin:
		x := g.Leaf(name+".a", BranchLeaves)
		y := g.Leaf(name+".b", g.lastBranch())
		b.Err, b.Text = stderrors.Join(x.Err, y.Err), x.Text+"\n"+y.Text
		b.Multi = []*B{x, y}
		b.Unsafe = append(append([]string{}, x.Unsafe...), y.Unsafe...)
		b.Safe = append(append([]string{}, x.Safe...), y.Safe...)
	case LFmtMulti:
		x := g.Leaf(name+".a", BranchLeaves)
		y := g.Leaf(name+".b", g.lastBranch())
		b.Err, b.Text = fmt.Errorf("%w - %w", x.Err, y.Err), x.Text+" - "+y.Text
		b.Multi = []*B{x, y}
		b.Unsafe = append(append([]string{}, x.Unsafe...), y.Unsafe...)
		b.Safe = append(append([]string{}, x.Safe...), y.Safe...)
	case LStdJoin1:
		// a multi-cause error with exactly one cause
		x := g.Leaf(name+".a", BranchLeaves)
		b.Err, b.Text = stderrors.Join(nil, x.Err), x.Text
		b.Multi = []*B{x}
		b.Unsafe, b.Safe = x.Unsafe, x.Safe
	case LUserMulti1:
		x := g.Leaf(name+".a", BranchLeaves)
		b.Err, b.Text = &UserMulti{Msg: "um", Errs: []error{x.Err}}, "um"
		b.Multi = []*B{x}
		b.Unsafe, b.Safe = x.Unsafe, x.Safe
	case LJoinWide:
		// five direct causes (fan-out shaped)
		x := g.Leaf(name+".a", BranchLeaves)
		rest := []error{errors.New("b"), stderrors.New("c"), context.Canceled, errors.New("e")}
		b.Err = errors.Join(append([]error{x.Err}, rest...)...)
		b.Text = x.Text + "\nb\nc\n" + context.Canceled.Error() + "\ne"
		b.Multi = []*B{x}
		for _, r := range rest {
			b.Multi = append(b.Multi, &B{Err: r, Text: r.Error(), Leaf: errors.UnwrapAll(r)})
		}
		b.Unsafe, b.Safe = x.Unsafe, x.Safe
	case LJoinNested:
		// a multi-cause node nested, below a wrapper, in a branch of another one
		x := g.Leaf(name+".a", BranchLeaves)
		z := g.Leaf(name+".c", g.lastBranch())
		inner := errors.Wrap(errors.Join(errors.New("y"), z.Err), "n")
		nb := &B{Err: inner, Text: "n: y\n" + z.Text, Kinds: []Kind{LJoin, WWrap}, Unsafe: z.Unsafe, Safe: z.Safe}
		nb.Leaf = errors.UnwrapAll(inner)
		b.Err, b.Text = errors.Join(x.Err, inner), x.Text+"\n"+nb.Text
		b.Multi = []*B{x, nb}
		b.Unsafe = append(append([]string{}, x.Unsafe...), z.Unsafe...)
		b.Safe = append(append([]string{}, x.Safe...), z.Safe...)
	default:
		panic("gen: not a leaf kind " + k.String())
	}
	// library leaf constructors attach a stack: the root cause is what lies below it
	b.Leaf = errors.UnwrapAll(b.Err)
	return b
}

func prefixText(p, cause string) string {
	if p == "" {
		return cause
	}
	return p + ": " + cause
}

// Wrap wraps c with a wrapper of one of the given kinds.
func (g *G) Wrap(name string, c *B, kinds []Kind) *B {
	k := g.pick(name+".k", kinds)
	return g.WrapOf(name, c, k)
}

func (g *G) WrapOf(name string, c *B, k Kind) *B {
	b := &B{Kinds: append([]Kind{k}, c.Kinds...), Leaf: c.Leaf, Text: c.Text, MarkRef: c.MarkRef,
		Hints: c.Hints, Details: c.Details, Unsafe: c.Unsafe, Safe: c.Safe, HTTP: c.HTTP, Grpc: c.Grpc, HasGrpc: c.HasGrpc, Domain: c.Domain}
	e := c.Err
	switch k {
	case WMessage:
		m := g.StrS(name + ".m")
		b.Err, b.Text = errors.WithMessage(e, m), prefixText(m, c.Text)
		b.Safe = append(append([]string{}, c.Safe...), m)
	case WWrap:
		m := g.StrS(name + ".m")
		b.Err, b.Text = errors.Wrap(e, m), prefixText(m, c.Text)
		b.Safe = append(append([]string{}, c.Safe...), m)
	case WWrapf:
		m := g.StrU(name + ".m")
		b.Err, b.Text = errors.Wrapf(e, "%s", m), prefixText(m, c.Text)
		b.Unsafe = append(append([]string{}, c.Unsafe...), m)
	case WNewfW:
		m := g.StrU(name + ".m")
		b.Err, b.Text = errors.Newf("%s - %w", m, e), m+" - "+c.Text
		b.Unsafe = append(append([]string{}, c.Unsafe...), m)
	case WStack:
		b.Err = errors.WithStack(e)
	case WHint:
		m := g.StrU(name + ".m")
		b.Err = errors.WithHint(e, m)
		b.Hints = append(append([]string{}, c.Hints...), m)
		b.Unsafe = append(append([]string{}, c.Unsafe...), m)
	case WDetail:
		m := g.StrU(name + ".m")
		b.Err = errors.WithDetail(e, m)
		b.Details = append(append([]string{}, c.Details...), m)
		b.Unsafe = append(append([]string{}, c.Unsafe...), m)
	case WSafeDetails:
		m := g.StrS(name + ".m")
		b.Err = errors.WithSafeDetails(e, "sd %s", errors.Safe(m))
		b.Safe = append(append([]string{}, c.Safe...), m)
	case WTelemetry:
		m := g.StrS(name + ".m")
		b.Err = errors.WithTelemetry(e, m)
		b.Safe = append(append([]string{}, c.Safe...), m)
	case WDomain:
		// domain names are rendered with %q by the library; a concrete name is used
		g.ctr++
		m := fmt.Sprintf("dom%d", g.ctr)
		b.Err = errors.WithDomain(e, errors.NamedDomain(m))
		b.Safe = append(append([]string{}, c.Safe...), m)
		b.Domain = "error domain: \"" + m + "\""
	case WIssueLink:
		m := g.StrS(name + ".m")
		var link errors.IssueLink
		switch g.V.Choice(name+".link", 3) {
		case 0:
			link = errors.IssueLink{IssueURL: m, Detail: "d"}
		case 1:
			link = errors.IssueLink{IssueURL: m}
		case 2:
			link = errors.IssueLink{Detail: m} // detail only
		}
		b.Err = errors.WithIssueLink(e, link)
		b.Safe = append(append([]string{}, c.Safe...), m)
		b.Link = &link
	case WTags:
		var ctx context.Context
		switch g.V.Choice(name+".tagkind", 3) {
		case 0:
			m := g.StrU(name + ".m")
			ctx = logtags.AddTag(context.Background(), "tk", m)
			b.Unsafe = append(append([]string{}, c.Unsafe...), m)
		case 1:
			// a value marked safe, plus a tag without value
			m := g.StrS(name + ".m")
			ctx = logtags.AddTag(logtags.AddTag(context.Background(), "tk", errors.Safe(m)), "flag", nil)
			b.Safe = append(append([]string{}, c.Safe...), m)
		case 2:
			m := g.StrU(name + ".m")
			ctx = logtags.AddTag(logtags.AddTag(context.Background(), "n", 7), "tk", m)
			b.Unsafe = append(append([]string{}, c.Unsafe...), m)
		}
		b.Err = errors.WithContextTags(e, ctx)
	case WAssertFail:
		b.Err = errors.WithAssertionFailure(e)
	case WMark:
		m := g.StrU(name + ".m")
		b.MarkRef = stderrors.New(m)
		b.Err = errors.Mark(e, b.MarkRef)
		b.Unsafe = append(append([]string{}, c.Unsafe...), m)
	case WSecondary:
		m := g.StrU(name + ".m")
		b.Err = errors.WithSecondaryError(e, errors.Newf("%s", m))
		b.Unsafe = append(append([]string{}, c.Unsafe...), m)
	case WHTTP:
		code := 404
		b.Err = exthttp.WrapWithHTTPCode(e, code)
		b.HTTP = code
	case WGrpc:
		b.Err = extgrpc.WrapWithGrpcCode(e, codes.NotFound)
		b.Grpc, b.HasGrpc = uint32(codes.NotFound), true
	case WPkgMsg:
		m := g.StrU(name + ".m")
		b.Err, b.Text = pkgerrors.WithMessage(e, m), m+": "+c.Text
		b.Unsafe = append(append([]string{}, c.Unsafe...), m)
	case WPkgStack:
		b.Err = pkgerrors.WithStack(e)
	case WFmtPrefix:
		m := g.StrU(name + ".m")
		b.Err, b.Text = fmt.Errorf("%s: %w", m, e), m+": "+c.Text
		b.Unsafe = append(append([]string{}, c.Unsafe...), m)
	case WFmtSuffix:
		m := g.StrU(name + ".m")
		b.Err, b.Text = fmt.Errorf("%w - %s", e, m), c.Text+" - "+m
		b.Unsafe = append(append([]string{}, c.Unsafe...), m)
	case WPathError:
		m := g.StrU(name + ".m")
		b.Err, b.Text = &os.PathError{Op: "open", Path: m, Err: e}, "open "+m+": "+c.Text
		b.Unsafe = append(append([]string{}, c.Unsafe...), m)
	case WLinkError:
		m := g.StrU(name + ".m")
		b.Err, b.Text = &os.LinkError{Op: "link", Old: m, New: "n", Err: e}, "link "+m+" n: "+c.Text
		b.Unsafe = append(append([]string{}, c.Unsafe...), m)
	case WSyscallError:
		b.Err, b.Text = os.NewSyscallError("open", e), "open: "+c.Text
	case WOpError:
		m := g.StrU(name + ".m")
		if g.V.Choice(name+".src", 2) == 1 {
			b.Err, b.Text = &net.OpError{Op: "dial", Net: "tcp", Source: addr{"s"}, Addr: addr{m}, Err: e}, "dial tcp s->"+m+": "+c.Text
		} else {
			b.Err, b.Text = &net.OpError{Op: "dial", Net: "tcp", Addr: addr{m}, Err: e}, "dial tcp "+m+": "+c.Text
		}
		b.Unsafe = append(append([]string{}, c.Unsafe...), m)
	case WUserPrefix:
		m := g.StrU(name + ".m")
		b.Err, b.Text = &UserPrefix{m, e}, m+": "+c.Text
		b.Unsafe = append(append([]string{}, c.Unsafe...), m)
	case WUserGlue:
		// at least two bytes may be drawn: a separator has something in front of it
		saved := g.Max
		if g.Max < 2 {
			g.Max = 2
		}
		m := g.StrU(name + ".m")
		g.Max = saved
		b.Err, b.Text = &UserGlue{m, e}, m+c.Text
		b.Unsafe = append(append([]string{}, c.Unsafe...), m)
	case WUserFull:
		m := g.StrU(name + ".m")
		b.Err, b.Text = &UserFull{m, e}, m
		b.Unsafe = append(append([]string{}, c.Unsafe...), m)
	case WUserFmt:
		m := g.StrU(name + ".m")
		b.Err, b.Text = &UserWFmt{m, e}, m+": "+c.Text
		b.Unsafe = append(append([]string{}, c.Unsafe...), m)
	case WUserSafeFmt:
		m := g.StrU(name + ".m")
		b.Err, b.Text = &UserWSafeFmt{m, e}, m+": "+c.Text
		b.Unsafe = append(append([]string{}, c.Unsafe...), m)
	case WHandledDomain:
		// barrier: becomes a leaf
		g.ctr++
		m := fmt.Sprintf("dom%d", g.ctr)
		b.Err = errors.HandledInDomain(e, errors.NamedDomain(m))
		b.Kinds = []Kind{k}
		b.Leaf = nil
		b.Hints, b.Details = nil, nil
		b.HTTP, b.HasGrpc, b.Grpc = 0, false, 0
		b.Safe = append(append([]string{}, c.Safe...), m)
		b.Domain = "error domain: \"" + m + "\""
	case WNewfWExtra:
		// %w plus a further error argument that carries safe information of its own
		m := g.StrU(name + ".m")
		tok := g.StrS(name + ".tok")
		other := errors.WithTelemetry(stderrors.New("o"), tok)
		b.Err, b.Text = errors.Newf("%s: %w (%v)", m, e, other), m+": "+c.Text+" (o)"
		b.Unsafe = append(append([]string{}, c.Unsafe...), m)
		b.Safe = append(append([]string{}, c.Safe...), tok)
	default:
		panic("gen: not a wrapper kind " + k.String())
	}
	if k == WHandledDomain {
		b.Leaf = errors.UnwrapAll(b.Err)
	}
	return b
}

// Build draws a leaf and d-1 wrappers.
func (g *G) Build(name string, d int, leaves, wrappers []Kind) *B {
	b := g.Leaf(name+".0", leaves)
	for i := 1; i < d; i++ {
		b = g.Wrap(fmt.Sprintf("%s.%d", name, i), b, wrappers)
	}
	return b
}

// BuildUpTo draws a depth in 1..d first.
func (g *G) BuildUpTo(name string, d int, leaves, wrappers []Kind) *B {
	n := 1 + g.V.Choice(name+".depth", d)
	return g.Build(name, n, leaves, wrappers)
}

// Representatives: one kind per behaviour class (used for the inner layers of
// deeper recipes and for the quick tier).
var (
	RepLeaves   = []Kind{LNew, LNewfUnsafe, LStd, LCtxCanceled, LErrno, LUserPlain, LUserIs, LUserNonComparable, LHandled, LHandledMsg, LJoin, LStdJoin1, LFmtMulti, LJoinNested, LJoinWide, LPkg}
	RepWrappers = []Kind{WWrap, WWrapf, WNewfW, WNewfWExtra, WHint, WDetail, WTelemetry, WSafeDetails, WDomain, WTags, WMark, WSecondary, WGrpc, WIssueLink, WFmtSuffix, WUserFull, WUserPrefix, WUserGlue, WPathError, WPkgMsg}
)

// BuildTiered draws a depth in 1..d, a leaf, inner wrappers and an outermost
// wrapper drawn from (possibly larger) kind sets of their own.
func (g *G) BuildTiered(name string, d int, leaves, inner, outer []Kind) *B {
	n := 1 + g.V.Choice(name+".depth", d)
	b := g.Leaf(name+".0", leaves)
	for i := 1; i < n; i++ {
		set := inner
		if i == n-1 {
			set = outer
		}
		b = g.Wrap(fmt.Sprintf("%s.%d", name, i), b, set)
	}
	return b
}
