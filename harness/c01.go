package verifh

import (
	"verifh/sym"
	"verifh/wire"
)

// H_C01_Transfer: text and cause-tree shape survive 1 and 2 hops between
// knowing processes; re-encoding after the first hop is a fixpoint.
func H_C01_Transfer(v *sym.V) {
	g := newG(v, sym.REG)
	b := build(v, g, "e")
	e := b.Err
	v.Assert("model-text", e.Error() == b.Text)
	enc0 := wire.Encode(e)
	e1 := wire.Decode(wire.Copy(enc0))
	enc1 := wire.Encode(e1)
	e2 := wire.Decode(wire.Copy(enc1))
	enc2 := wire.Encode(e2)
	v.Observe("text", e.Error())
	v.Observe("text1", e1.Error())
	compareTrees(v, "hop1", b, e, e1)
	compareTrees(v, "hop2", b, e, e2)
	v.Assert("fixpoint", wire.Equal(enc1, enc2))
}
