package verifh

import (
	stderrors "errors"
	"fmt"

	"github.com/cockroachdb/errors"
	pkgerrors "github.com/pkg/errors"
	"verifh/gen"
	"verifh/sym"
)

type isIface interface{ Is(error) bool }

// userPlainTwin has the same underlying type as gen.UserPlain but is another type.
type userPlainTwin struct{ Msg string }

func (e *userPlainTwin) Error() string { return e.Msg }

// UserAs has its own As method.
type UserAs struct{ Msg string }

func (e *UserAs) Error() string { return e.Msg }
func (e *UserAs) As(target interface{}) bool {
	if t, ok := target.(**gen.UserPlain); ok {
		*t = &gen.UserPlain{Msg: "via-As:" + e.Msg}
		return true
	}
	return false
}

// H_C14_Compat: differential check against the standard library's errors
// package (executed symbolically as well) and pkg/errors.Cause.
func H_C14_Compat(v *sym.V) {
	g := newG(v, sym.REGNN)
	var b *gen.B
	samePtr := false
	switch lk := v.Choice("leafkind", 3); {
	case lk == 0:
		b = g.Leaf("e.0", gen.Cat(gen.AllLeaves))
	case lk == 2:
		// a multi-cause node whose first branch holds a match below a wrapper and
		// whose second branch is a match itself: depth-first order decides
		deep, direct := &gen.UserPlain{Msg: g.StrU("deep.m")}, &gen.UserPlain{Msg: g.StrU("direct.m")}
		first := errors.Wrap(deep, "w")
		var multi error
		switch v.Choice("multikind", 3) {
		case 0:
			multi = errors.Join(first, direct)
		case 1:
			multi = stderrors.Join(first, direct)
		case 2:
			multi = fmt.Errorf("%w & %w", first, direct)
		}
		b = &gen.B{Err: multi, Text: multi.Error(), Kinds: []gen.Kind{gen.LJoin}}
		b.Leaf = errors.UnwrapAll(multi)
		samePtr = true
	default:
		m := g.StrU("as.m")
		b = &gen.B{Err: &UserAs{m}, Text: m, Kinds: []gen.Kind{gen.LUserPlain}}
		b.Leaf = b.Err
	}
	d := v.Param("D", 2)
	n := v.Choice("wraps", d)
	onlyCause := true
	for i := 0; i < n; i++ {
		b = g.Wrap(fmt.Sprintf("e.%d", i+1), b, gen.Cat(gen.MsgWrappers, gen.AnnotWrappers, gen.ForeignWrappers))
		switch b.Kinds[0] {
		case gen.WFmtPrefix, gen.WFmtSuffix, gen.WPathError, gen.WLinkError, gen.WSyscallError, gen.WOpError, gen.WUserPrefix, gen.WUserFull, gen.WUserFmt, gen.WUserSafeFmt, gen.WUserGlue:
			onlyCause = false // these expose Unwrap() but no Cause()
		}
	}
	e := b.Err
	// references
	var r error
	switch v.Choice("ref", 4) {
	case 0:
		r = e
	case 1:
		r = errors.UnwrapAll(e)
	case 2:
		r = sentinelPool[v.Choice("pool", 3)]
	case 3:
		r = &gen.UserIs{Msg: g.StrU("r.m")}
	}
	if _, nc := r.(gen.UserNonComparable); !nc {
		v.Assert("std-is-implies-is", sym.Implies(stderrors.Is(e, r), errors.Is(e, r)))
	}
	// Unwrap agrees with the standard library
	su, lu := stderrors.Unwrap(e), errors.Unwrap(e)
	v.Assert("unwrap-nil-agree", (su == nil) == (lu == nil))
	if su != nil && lu != nil {
		v.Assert("unwrap-agree", fmt.Sprintf("%T", su) == fmt.Sprintf("%T", lu) && su.Error() == lu.Error())
	}
	// Cause / UnwrapAll vs pkg/errors.Cause on chains whose layers all have Cause()
	if onlyCause && len(errors.GetAllSafeDetails(e)) > 0 {
		pc, lc := pkgerrors.Cause(e), errors.Cause(e)
		v.Assert("cause-agree", fmt.Sprintf("%T", pc) == fmt.Sprintf("%T", lc) && pc.Error() == lc.Error())
	}
	// As: pointer target, interface target, value target
	var t1, s1 *gen.UserPlain
	g1, w1 := errors.As(e, &t1), stderrors.As(e, &s1)
	v.Assert("as-ptr-agree", g1 == w1)
	if g1 && w1 {
		v.Assert("as-ptr-value", t1.Msg == s1.Msg)
		if samePtr {
			v.Assert("as-ptr-same-object", t1 == s1)
		}
	}
	var t2, s2 isIface
	g2, w2 := errors.As(e, &t2), stderrors.As(e, &s2)
	v.Assert("as-iface-agree", g2 == w2)
	if g2 && w2 {
		v.Assert("as-iface-value", fmt.Sprintf("%T", t2) == fmt.Sprintf("%T", s2))
	}
	var t3, s3 gen.UserNonComparable
	g3, w3 := errors.As(e, &t3), stderrors.As(e, &s3)
	v.Assert("as-value-agree", g3 == w3)
	if g3 && w3 {
		v.Assert("as-value-value", t3.Msg == s3.Msg)
	}
	// a type that is convertible to, but not the same as, a type in the chain
	var t4, s4 *userPlainTwin
	g4, w4 := errors.As(e, &t4), stderrors.As(e, &s4)
	v.Assert("as-twin-agree", g4 == w4)
	// the standard library traverses library-built chains
	root := errors.UnwrapAll(e)
	if _, nc := root.(gen.UserNonComparable); !nc {
		v.Assert("std-is-root", stderrors.Is(e, root))
	}
}
