// Package c16x: an alternative depth-1 caller of c16a.L0 (the same call sites
// inside L0 are reached with a different caller above them).
package c16x

import (
	"github.com/cockroachdb/errors"
	"verifh/c16a"
	"verifh/sym"
)

//go:noinline
func L1(v *sym.V, which int, d int) (error, errors.Domain) {
	return c16a.L0(v, which, d)
}
