package verifh

import (
	"context"

	"github.com/cockroachdb/errors"
	"github.com/cockroachdb/errors/errbase"
	"github.com/cockroachdb/errors/errorspb"
	"github.com/gogo/protobuf/proto"
	"verifh/sym"
	"verifh/wire"
)

// One logical error type under four names: Foo (v1), Bar (v2: renamed from
// Foo), Qux (vB: renamed from Foo), Baz (v3: renamed from Bar).
type C17Foo struct{ Msg string }
type C17Bar struct{ Msg string }
type C17Qux struct{ Msg string }
type C17Baz struct{ Msg string }

// C17Zed: v4 of the code renamed Baz once more (chain of three renames).
type C17Zed struct{ Msg string }

func (e *C17Zed) Error() string { return e.Msg }

func (e *C17Foo) Error() string { return e.Msg }
func (e *C17Bar) Error() string { return e.Msg }
func (e *C17Qux) Error() string { return e.Msg }
func (e *C17Baz) Error() string { return e.Msg }

// c17Version selects which code version the current "process" runs:
// 0 = never knew the type, 1 = Foo, 2 = Bar, 3 = Qux, 4 = Baz.
var c17Version int

const c17FooKey = "verifh/*verifh.C17Foo"

func init() {
	errors.RegisterLeafDecoder(c17FooKey, func(_ context.Context, msg string, _ []string, _ proto.Message) error {
		switch c17Version {
		case 1:
			return &C17Foo{msg}
		case 2:
			return &C17Bar{msg}
		case 3:
			return &C17Qux{msg}
		case 4:
			return &C17Baz{msg}
		case 5:
			return &C17Zed{msg}
		}
		return nil // unknowing process: opaque
	})
}

// c17Touch: the process uses the types (computes their type keys, as done when
// registering decoders) between the registrations of the renames.
var c17Touch bool

func c17TouchTypes() {
	if c17Touch {
		for _, e := range []error{&C17Foo{}, &C17Bar{}, &C17Qux{}, &C17Baz{}, &C17Zed{}} {
			_ = errors.GetTypeKey(e)
		}
	}
}

// inProcess runs body in a simulated process of the given version; order
// selects the registration order of chained renames (version 4 only).
func inProcess(version, order int, body func()) {
	restore := errbase.TestingWithEmptyMigrationRegistry()
	defer restore()
	saved := c17Version
	c17Version = version
	defer func() { c17Version = saved }()
	switch version {
	case 2:
		errors.RegisterTypeMigration("verifh", "*verifh.C17Foo", &C17Bar{})
	case 3:
		errors.RegisterTypeMigration("verifh", "*verifh.C17Foo", &C17Qux{})
	case 4:
		if order%2 == 0 {
			errors.RegisterTypeMigration("verifh", "*verifh.C17Foo", &C17Bar{})
			c17TouchTypes()
			errors.RegisterTypeMigration("verifh", "*verifh.C17Bar", &C17Baz{})
		} else {
			errors.RegisterTypeMigration("verifh", "*verifh.C17Bar", &C17Baz{})
			c17TouchTypes()
			errors.RegisterTypeMigration("verifh", "*verifh.C17Foo", &C17Bar{})
		}
	case 5:
		// three chained renames, registered in any of the six orders
		regs := []func(){
			func() { errors.RegisterTypeMigration("verifh", "*verifh.C17Foo", &C17Bar{}) },
			func() { errors.RegisterTypeMigration("verifh", "*verifh.C17Bar", &C17Baz{}) },
			func() { errors.RegisterTypeMigration("verifh", "*verifh.C17Baz", &C17Zed{}) },
		}
		perms := [][3]int{{0, 1, 2}, {0, 2, 1}, {1, 0, 2}, {1, 2, 0}, {2, 0, 1}, {2, 1, 0}}
		for _, i := range perms[order%6] {
			regs[i]()
			c17TouchTypes()
		}
	}
	body()
}

func c17Make(version int, m string) error {
	switch version {
	case 1:
		return &C17Foo{m}
	case 2:
		return &C17Bar{m}
	case 3:
		return &C17Qux{m}
	case 4:
		return &C17Baz{m}
	case 5:
		return &C17Zed{m}
	}
	return nil
}

func c17SameType(version int, e error) bool {
	switch version {
	case 1:
		_, ok := e.(*C17Foo)
		return ok
	case 2:
		_, ok := e.(*C17Bar)
		return ok
	case 3:
		_, ok := e.(*C17Qux)
		return ok
	case 4:
		_, ok := e.(*C17Baz)
		return ok
	case 5:
		_, ok := e.(*C17Zed)
		return ok
	}
	return true
}

func leafOf(enc *wire.Enc) *wire.Enc {
	for {
		w, ok := enc.Error.(*errorspb.EncodedError_Wrapper)
		if !ok {
			return enc
		}
		enc = &w.Wrapper.Cause
	}
}

func familyOf(enc *wire.Enc) string {
	switch x := enc.Error.(type) {
	case *errorspb.EncodedError_Leaf:
		return x.Leaf.Details.ErrorTypeMark.FamilyName
	case *errorspb.EncodedError_Wrapper:
		return x.Wrapper.Details.ErrorTypeMark.FamilyName
	}
	return ""
}

// H_C17_Migration: sender / optional intermediary / receiver run symbolic code
// versions (incl. both registration orders of the chained rename); the wire
// name is always the original one, arrival decodes to the receiver's type, Is
// recognises the error against a local instance, and two errors sent by
// different versions compare equal on a process that never knew the type.
func H_C17_Migration(v *sym.V) {
	m := v.Str("m", sym.REGNN, 1, v.Param("maxlen", 2))
	nv := v.Param("versions", 5) // 4: chains of two renames; 5: chains of three
	sender := 1 + v.Choice("sender", nv)
	mid := v.Choice("mid", nv+2) // 0..nv = version of an intermediary, nv+1 = none
	recv := v.Choice("recv", nv+1)
	order := v.Choice("order", 6)
	wrapped := v.Choice("wrapped", 2) == 1
	c17Touch = v.Choice("touch", 2) == 1
	defer func() { c17Touch = false }()

	var enc *wire.Enc
	inProcess(sender, order, func() {
		e := c17Make(sender, m)
		v.Assert("key@sender", string(errors.GetTypeKey(e)) == c17FooKey)
		if wrapped {
			e = errors.Wrap(e, "w")
		}
		enc = wire.Copy(wire.Encode(e))
	})
	v.Assert("wire-name", familyOf(leafOf(enc)) == c17FooKey)
	if mid <= nv {
		inProcess(mid, order, func() {
			enc = wire.Copy(wire.Encode(wire.Decode(enc)))
		})
		v.Assert("wire-name-after-mid", familyOf(leafOf(enc)) == c17FooKey)
	}
	inProcess(recv, order, func() {
		d := wire.Decode(enc)
		v.Assert("text", errors.UnwrapAll(d).Error() == m)
		if recv > 0 {
			v.Assert("decoded-type", c17SameType(recv, errors.UnwrapAll(d)))
			local := c17Make(recv, m)
			v.Assert("is-local", errors.Is(d, local))
		} else {
			// scenario 5: a process that never knew the type compares two arrivals
			var enc2 *wire.Enc
			other := 1 + v.Choice("other", nv)
			inProcess(other, order, func() { enc2 = wire.Copy(wire.Encode(c17Make(other, m))) })
			d2 := wire.Decode(enc2)
			v.Assert("is-third-party", sym.And(errors.Is(d, d2), errors.Is(d2, errors.UnwrapAll(d))))
		}
	})
}

// H_C17_Duplicate: registering the same target twice is rejected.
func H_C17_Duplicate(v *sym.V) {
	restore := errbase.TestingWithEmptyMigrationRegistry()
	defer restore()
	errors.RegisterTypeMigration("verifh", "*verifh.C17Foo", &C17Bar{})
	panicked := false
	func() {
		defer func() {
			if recover() != nil {
				panicked = true
			}
		}()
		switch v.Choice("same-source", 4) {
		case 0:
			errors.RegisterTypeMigration("verifh", "*verifh.C17Foo", &C17Bar{})
		case 1:
			errors.RegisterTypeMigration("verifh", "*verifh.C17Qux", &C17Bar{})
		case 2:
			// a chain, then its last link again
			errors.RegisterTypeMigration("verifh", "*verifh.C17Bar", &C17Baz{})
			errors.RegisterTypeMigration("verifh", "*verifh.C17Bar", &C17Baz{})
		case 3:
			// the same target from another name that resolves to the same original
			errors.RegisterTypeMigration("verifh", "*verifh.C17Foo", &C17Qux{})
			errors.RegisterTypeMigration("verifh", "*verifh.C17Qux", &C17Bar{})
		}
	}()
	v.Assert("duplicate-rejected", panicked)
}

// A renamed wrapper type: WFoo (v1) was renamed WBar (v2). No decoder is
// registered for it, so receivers keep it as an opaque wrapper.
type C17WFoo struct{ Cause error }
type C17WBar struct{ Cause error }

func (w *C17WFoo) Error() string { return "w: " + w.Cause.Error() }
func (w *C17WFoo) Unwrap() error { return w.Cause }
func (w *C17WBar) Error() string { return "w: " + w.Cause.Error() }
func (w *C17WBar) Unwrap() error { return w.Cause }

const c17WFooKey = "verifh/*verifh.C17WFoo"

// c17WDecode: whether the current "process" registered a decoder for the wrapper
// type, and under which of its names it rebuilds it (0 = no decoder: opaque).
var c17WDecode int

func init() {
	errors.RegisterWrapperDecoder(c17WFooKey, func(_ context.Context, cause error, _ string, _ []string, _ proto.Message) error {
		switch c17WDecode {
		case 1:
			return &C17WFoo{cause}
		case 2:
			return &C17WBar{cause}
		}
		return nil
	})
}

func inWrapperProcess(version int, body func()) {
	restore := errbase.TestingWithEmptyMigrationRegistry()
	defer restore()
	if version == 2 {
		errors.RegisterTypeMigration("verifh", "*verifh.C17WFoo", &C17WBar{})
	}
	body()
}

func c17MakeW(version int, cause error) error {
	if version == 2 {
		return &C17WBar{cause}
	}
	return &C17WFoo{cause}
}

// H_C17_Wrapper: the same for a renamed wrapper type that stays opaque at the
// receiver: wire name, identity against a local instance, third-party comparison.
func H_C17_Wrapper(v *sym.V) {
	m := v.Str("m", sym.REGNN, 1, v.Param("maxlen", 2))
	sender := 1 + v.Choice("sender", 2)
	recv := v.Choice("recv", 3)
	var enc *wire.Enc
	inWrapperProcess(sender, func() {
		e := c17MakeW(sender, errors.New(m))
		v.Assert("wkey@sender", string(errors.GetTypeKey(e)) == c17WFooKey)
		enc = wire.Copy(wire.Encode(e))
	})
	v.Assert("wwire-name", familyOf(enc) == c17WFooKey)
	if v.Choice("via-unknowing", 2) == 1 {
		inWrapperProcess(0, func() { enc = wire.Copy(wire.Encode(wire.Decode(enc))) })
		v.Assert("wwire-name-after-mid", familyOf(enc) == c17WFooKey)
	}
	withDecoder := recv > 0 && v.Choice("decoder", 2) == 1
	inWrapperProcess(recv, func() {
		if withDecoder {
			c17WDecode = recv
			defer func() { c17WDecode = 0 }()
		}
		d := wire.Decode(enc)
		if withDecoder {
			_, isFoo := d.(*C17WFoo)
			_, isBar := d.(*C17WBar)
			v.Assert("wdecoded-type", (recv == 1 && isFoo) || (recv == 2 && isBar))
		}
		v.Assert("wtext", d.Error() == "w: "+m)
		v.Assert("wkey@receiver", string(errors.GetTypeKey(d)) == c17WFooKey)
		if recv > 0 {
			local := c17MakeW(recv, errors.New(m))
			v.Assert("wis-local", sym.And(errors.Is(d, local), errors.Is(local, d)))
		} else {
			other := 1 + v.Choice("other", 2)
			var enc2 *wire.Enc
			inWrapperProcess(other, func() { enc2 = wire.Copy(wire.Encode(c17MakeW(other, errors.New(m)))) })
			d2 := wire.Decode(enc2)
			v.Assert("wis-third-party", sym.And(errors.Is(d, d2), errors.Is(d2, d)))
		}
	})
}
