package verifh

import (
	"fmt"
	"runtime"

	"verifh/sym"
)

// H_Calibrate reports the frames below a harness function on the native stack
// (native runner only; the engine uses them as the bottom of its stack model).
func H_Calibrate(v *sym.V) {
	if v.Symbolic() {
		return
	}
	var pcs [32]uintptr
	n := runtime.Callers(2, pcs[:]) // skip Callers and H_Calibrate
	frames := runtime.CallersFrames(pcs[:n])
	for {
		f, more := frames.Next()
		v.Observe("frame", fmt.Sprintf("%s|%s|%d", f.Function, f.File, f.Line))
		if !more {
			break
		}
	}
}
