package verifh

import "verifh/sym"

// Harnesses maps harness names to functions (native runner).
var Harnesses = map[string]func(*sym.V){
	"H_Smoke":     H_Smoke,
	"H_Calibrate": H_Calibrate,
}
