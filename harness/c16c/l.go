// Package c16c: helper L2 of the C16 call chain (caller at depth 2).
package c16c

import (
	"github.com/cockroachdb/errors"
	"verifh/c16b"
	"verifh/sym"
)

//go:noinline
func L2(v *sym.V, which int, d int) (error, errors.Domain) {
	return c16b.L1(v, which, d)
}
