// Package c16b: helper L1 of the C16 call chain (caller at depth 1).
package c16b

import (
	"github.com/cockroachdb/errors"
	"verifh/c16a"
	"verifh/sym"
)

//go:noinline
func L1(v *sym.V, which int, d int) (error, errors.Domain) {
	return c16a.L0(v, which, d)
}
