package verifh

import (
	"github.com/cockroachdb/errors"
	"github.com/cockroachdb/errors/errbase"
	"verifh/gen"
	"verifh/sym"
	"verifh/wire"
)

// viaUnknowing sends e through a process that knows none of its types and then
// on to a knowing process.
func viaUnknowing(e error) error {
	enc := wire.Copy(wire.Encode(e))
	wire.Rename(enc, -1, "~u")
	u := wire.Decode(enc)
	re := wire.Copy(wire.Encode(u))
	wire.Unrename(re, "~u")
	return wire.Decode(re)
}

// atUnknowing is what a process that knows none of the types holds after receiving e.
func atUnknowing(e error) error {
	enc := wire.Copy(wire.Encode(e))
	wire.Rename(enc, -1, "~u")
	return wire.Decode(enc)
}

// H_C02_IsTransfer: Is(e, r) is the same before and after e (and/or r) crossed
// the network, through knowing and unknowing processes.
func H_C02_IsTransfer(v *sym.V) {
	g := newG(v, sym.REGNN)
	b := build(v, g, "e")
	e := b.Err
	var r error
	switch v.Choice("ref", 7) {
	case 6:
		// the root of the last branch, through every nested multi-cause node
		r = errors.UnwrapAll(e)
		if len(errbase.UnwrapMulti(r)) == 0 {
			return // same as the root reference
		}
		for m := errbase.UnwrapMulti(r); len(m) > 0; m = errbase.UnwrapMulti(r) {
			r = errors.UnwrapAll(m[len(m)-1])
		}
	case 0:
		r = e
	case 1:
		r = errors.UnwrapAll(e)
	case 2:
		r = sentinelPool[v.Choice("pool", v.Param("pool", 3))]
	case 3:
		// independently built leaf of the same kind set, independent strings
		r = g.Leaf("r", []gen.Kind{gen.LNew, gen.LStd, gen.LUserPlain, gen.LUserIs, gen.LUserNonComparable, gen.LErrno}).Err
	case 4:
		// near-equal: e's root under another domain
		r = errors.WithDomain(errors.UnwrapAll(e), errors.NamedDomain("other"))
	case 5:
		// near-equal: one more layer
		r = errors.WithMessage(e, "extra")
	}
	before := errors.Is(e, r)
	v.Assert("isany-agrees-locally", errors.IsAny(e, r) == before)
	v.Assert("reflexive-after-hop", errors.Is(wire.Hop(e), e))
	switch v.Choice("pattern", 5) {
	case 0:
		h := wire.Hop(e)
		v.Assert("e-hop", errors.Is(h, r) == before)
		v.Assert("e-hop-isany", errors.IsAny(h, r) == before)
	case 1:
		h := wire.Hop(wire.Hop(e))
		v.Assert("e-2hops", errors.Is(h, r) == before)
		v.Assert("e-2hops-isany", errors.IsAny(h, r) == before)
	case 2:
		h := viaUnknowing(e)
		v.Assert("e-unknowing", errors.Is(h, r) == before)
		v.Assert("e-unknowing-isany", errors.IsAny(h, r) == before)
	case 4:
		// both arrive at a process that knows none of their types and are compared there
		if r == nil || (before && !isModel(e, r)) {
			v.Reach("carve-out")
			return
		}
		ue, ur := atUnknowing(e), atUnknowing(r)
		v.Assert("both-at-unknowing", errors.Is(ue, ur) == before)
		v.Assert("both-at-unknowing-isany", errors.IsAny(ue, ur) == before)
	case 3:
		// r is transferred. Carve-out of the property: a local match that exists only
		// through a foreign type's own Is method comparing object identity (e.g.
		// syscall.Errno.Is against the os.Err* sentinel objects) cannot survive r's
		// transfer; such pairs are not asserted. "Only through an Is method" = the
		// pair matches although no layer is identical or mark-equivalent to r.
		if before && !isModel(e, r) {
			v.Reach("carve-out")
			return
		}
		if v.Choice("both", 2) == 0 {
			v.Assert("both-hop", errors.Is(wire.Hop(e), wire.Hop(r)) == before)
		} else {
			v.Assert("r-hop", errors.Is(e, wire.Hop(r)) == before)
		}
	}
}
