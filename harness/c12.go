package verifh

import (
	"fmt"

	"github.com/cockroachdb/errors"
	"github.com/cockroachdb/errors/barriers"
	"verifh/sym"
	"verifh/wire"
)

// reportText concatenates everything the Sentry report and the safe details carry.
func reportText(e error) string {
	out := ""
	for _, p := range errors.GetAllSafeDetails(e) {
		out += p.OriginalTypeName + "\x00"
		for _, d := range p.SafeDetails {
			out += d + "\x00"
		}
	}
	ev, extras := errors.BuildSentryReport(e)
	out += ev.Message + "\x00"
	for _, x := range ev.Exception {
		out += x.Type + "\x00" + x.Value + "\x00" + x.Module + "\x00"
	}
	for k, x := range extras {
		out += k + "\x00" + fmt.Sprint(x) + "\x00"
	}
	return out
}

// H_C12_SafeRetained: every string that entered through a safe channel is
// present in the Sentry report and/or the safe details; locally, after a hop,
// behind a barrier and inside a secondary error.
func H_C12_SafeRetained(v *sym.V) {
	g := newG(v, sym.REGNN)
	g.ClsSafe = sym.TOK
	b := build(v, g, "e")
	e := b.Err
	tag := b.Kinds[0].String()
	switch v.Choice("stage", v.Param("stages", 7)) {
	case 6:
		// two domain annotations directly on top of each other: both names are safe strings
		e = errors.WithDomain(errors.WithDomain(e, errors.NamedDomain("domInner")), errors.NamedDomain("domOuter"))
		b.Safe = append(b.Safe, "domInner", "domOuter")
		if v.Choice("domains-hop", 2) == 1 {
			e = wire.Hop(e)
		}
		tag += "/stacked-domains"
	case 4:
		// the carrier is the secondary error of a secondary error
		e = errors.CombineErrors(errors.New("p1"), errors.CombineErrors(errors.New("p2"), e))
		if v.Choice("nested-hop", 2) == 1 {
			e = wire.Hop(e)
		}
		tag += "/nested-secondary"
	case 5:
		// a barrier message built from a format with a safe argument
		tok := g.StrS("fmt.tok")
		e = barriers.HandledWithMessagef(e, "handled %s", errors.Safe(tok))
		b.Safe = append(b.Safe, tok)
		tag += "/handledmsgf"
	case 1:
		e = wire.Hop(e)
		tag += "/hop"
	case 2:
		e = errors.Handled(e)
		tag += "/behind-barrier"
	case 3:
		e = errors.WithSecondaryError(errors.New("primary"), e)
		tag += "/secondary"
	}
	txt := reportText(e)
	for _, s := range b.Safe {
		if sym.HasByteIn(s, 1, 8) || (len(s) > 3 && s[:3] == "dom") { // a token or a domain name (other concrete fillers are not tracked)
			v.Assert("safe-retained@"+tag, sym.Contains(txt, s))
		}
	}
	if b.Domain != "" && v.Choice("stage-dom", 1) == 0 {
		v.Assert("domain-retained@"+tag, sym.Contains(txt, b.Domain))
	}
	v.Reach("checked")
}
