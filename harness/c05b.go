package verifh

import (
	stderrors "errors"

	"github.com/cockroachdb/errors"
	"github.com/cockroachdb/errors/errorspb"
	pkgerrors "github.com/pkg/errors"
	"verifh/sym"
	"verifh/wire"
)

// stackAlphabet: the bytes that matter to the parser of printed stack traces
// (line and field separators, name punctuation, the two bytes of U+00B7, one
// letter, one digit).
var stackAlphabet = []byte("\n\t :.[]a1\xc2\xb7")

// H_C05_StackText: the printed stack trace carried by a stack annotation is
// text from the network. Whatever it contains (over stackAlphabet, up to stlen
// bytes, optionally after a well-formed first entry), decoding and every
// observer -- in particular the ones that parse it back into frames -- are total.
func H_C05_StackText(v *sym.V) {
	s := v.Str("st", sym.ANY, 0, v.Param("stlen", 4))
	for i := 0; i < len(s); i++ {
		ok := false
		for _, c := range stackAlphabet {
			ok = sym.Or(ok, s[i] == c)
		}
		v.Assume(ok)
	}
	if v.Choice("lead", 2) == 1 {
		s = "\nmain.f\n\t/a/b.go:12\n" + s
	}
	var enc *wire.Enc
	var det *errorspb.EncodedErrorDetails
	switch v.Choice("carrier", 3) {
	case 0:
		enc = wire.Encode(errors.WithStack(stderrors.New("x")))
		det = &enc.Error.(*errorspb.EncodedError_Wrapper).Wrapper.Details
	case 1:
		enc = wire.Encode(pkgerrors.WithStack(stderrors.New("x")))
		det = &enc.Error.(*errorspb.EncodedError_Wrapper).Wrapper.Details
	case 2:
		enc = wire.Encode(pkgerrors.New("x"))
		det = &enc.Error.(*errorspb.EncodedError_Leaf).Leaf.Details
	}
	det.ReportablePayload = []string{s}
	if v.Choice("below", 2) == 1 {
		outer := wire.Encode(errors.WithHint(errors.New("x"), "h"))
		outer.Error.(*errorspb.EncodedError_Wrapper).Wrapper.Cause = *enc
		enc = outer
	}
	var e error
	guarded(v, "nopanic-decode@stacktext", func() { e = wire.Decode(wire.Copy(enc)) })
	if e == nil {
		v.Assert("non-nil@stacktext", false)
		return
	}
	v.Reach("decoded-stacktext")
	guarded(v, "nopanic-stack@stacktext", func() {
		for c := e; c != nil; c = errors.UnwrapOnce(c) {
			st := errors.GetReportableStackTrace(c)
			v.Assert("frames-nonempty@stacktext", st == nil || len(st.Frames) > 0)
		}
		_, _, _, _ = errors.GetOneLineSource(e)
	})
	guarded(v, "nopanic-report@stacktext", func() { _, _ = errors.BuildSentryReport(e) })
	guarded(v, "nopanic-encode@stacktext", func() { _ = wire.Encode(e) })
	guarded(v, "nopanic-fmt@stacktext", func() {
		_ = e.Error()
		_ = errors.GetAllSafeDetails(e)
	})
}
