package verifh

import (
	"context"
	"fmt"

	"github.com/cockroachdb/errors"
	"github.com/cockroachdb/errors/extgrpc"
	"github.com/cockroachdb/errors/grpc/middleware"
	gogostatus "github.com/gogo/status"
	"google.golang.org/grpc"
	"google.golang.org/grpc/codes"
	grpcstatus "google.golang.org/grpc/status"
	"verifh/gen"
	"verifh/sym"
	"verifh/wire"
)

// transport models the gRPC transport as the identity on the status: what the
// server interceptor returns reaches the client's invoker as a gRPC status error
// with the same code, message and details.
func transport(serr error) error {
	if serr == nil {
		return nil
	}
	se, ok := serr.(interface{ GRPCStatus() *grpcstatus.Status })
	if !ok {
		return grpcstatus.Error(codes.Unknown, serr.Error())
	}
	return se.GRPCStatus().Err()
}

func throughInterceptors(e error) (error, error) {
	ctx := context.Background()
	handler := func(ctx context.Context, req interface{}) (interface{}, error) { return "resp", e }
	_, serr := middleware.UnaryServerInterceptor(ctx, "req", nil, handler)
	wireErr := transport(serr)
	invoker := func(ctx context.Context, method string, req, reply interface{}, cc *grpc.ClientConn, opts ...grpc.CallOption) error {
		return wireErr
	}
	return middleware.UnaryClientInterceptor(ctx, "/svc/m", "req", nil, nil, invoker), wireErr
}

// H_C20_Interceptors: the error received through the client interceptor equals
// the direct EncodeError/DecodeError transfer; the status code is the attached
// gRPC code (Unknown otherwise); nil and status errors pass unchanged.
func H_C20_Interceptors(v *sym.V) {
	switch v.Choice("case", 8) {
	case 7:
		// encodings around the usual size thresholds (1, 4, 8 KiB) of transports
		n := []int{1000, 4100, 8200}[v.Choice("bulk", 3)]
		pad := make([]byte, n)
		for i := range pad {
			pad[i] = 'x'
		}
		var e error
		switch v.Choice("bulkshape", 4) {
		case 0:
			e = errors.WithDetail(errors.Wrap(errors.New("x"), "w"), string(pad))
		case 1:
			e = errors.WithStack(errors.WithHint(errors.WithStack(&gen.UserPlain{Msg: "u"}), string(pad)))
		case 2:
			e = errors.Wrap(errors.Newf("%s", string(pad)), "w")
		case 3:
			e = errors.Join(errors.New(string(pad)), errors.WithStack(errors.New("y")))
		}
		got, _ := throughInterceptors(e)
		direct := wire.Hop(e)
		compareTrees(v, "client-bulk", nil, direct, got)
		accessorsEqual(v, "client-bulk", direct, got)
		annotationsEqual(v, "client-bulk", direct, got)
		return
	case 6:
		// an attached code, symbolic (every uint32 but OK), on a few fixed shapes
		c := v.Uint32("code")
		v.Assume(c != 0) // codes.OK is not an error status
		var e error = errors.New("x")
		switch v.Choice("codeshape", 3) {
		case 0:
			e = extgrpc.WrapWithGrpcCode(e, codes.Code(c))
		case 1:
			e = errors.Wrap(extgrpc.WrapWithGrpcCode(errors.WithHint(e, "h"), codes.Code(c)), "w")
		case 2:
			e = extgrpc.WrapWithGrpcCode(errors.Handled(e), codes.Code(c))
		}
		got, werr := throughInterceptors(e)
		direct := wire.Hop(e)
		v.Assert("status-code", uint32(grpcstatus.Code(werr)) == c)
		v.Assert("grpc-code", uint32(extgrpc.GetGrpcCode(got)) == c)
		compareTrees(v, "client-code", nil, direct, got)
		return
	case 4:
		// a tree whose innermost leaf is a status error is an ordinary error
		st := gogostatus.Error(codes.NotFound, "inner status")
		var e error
		switch v.Choice("statuswrap", 3) {
		case 0:
			e = errors.Wrap(st, "lookup failed")
		case 1:
			e = extgrpc.WrapWithGrpcCode(errors.WithDetail(st, "d"), codes.Internal)
		case 2:
			e = errors.WithHint(st, "h")
		}
		got, werr := throughInterceptors(e)
		direct := wire.Hop(e)
		v.Assert("wrapped-status-code", grpcstatus.Code(werr) == extgrpc.GetGrpcCode(e))
		v.Assert("wrapped-status-text", got.Error() == direct.Error())
		accessorsEqual(v, "wrapped-status", direct, got)
		return
	case 5:
		// nested codes: the outermost one wins, whatever its value
		inner, outer := v.Uint32("inner"), v.Uint32("outer")
		v.Assume(outer != 0)
		e := extgrpc.WrapWithGrpcCode(errors.Wrap(extgrpc.WrapWithGrpcCode(errors.New("x"), codes.Code(inner)), "w"), codes.Code(outer))
		got, werr := throughInterceptors(e)
		v.Assert("nested-status-code", uint32(grpcstatus.Code(werr)) == outer)
		v.Assert("nested-grpc-code", uint32(extgrpc.GetGrpcCode(got)) == outer)
		return
	case 0:
		got, werr := throughInterceptors(nil)
		v.Assert("nil-passes", got == nil && werr == nil)
		return
	case 1:
		st := gogostatus.Error(codes.NotFound, "status msg")
		got, _ := throughInterceptors(st)
		v.Assert("status-code-kept", gogostatus.Code(got) == codes.NotFound)
		v.Assert("status-text-kept", got.Error() == st.Error())
		return
	}
	g := newG(v, sym.REGNN)
	b := build(v, g, "e")
	e := b.Err
	want := extgrpc.GetGrpcCode(e)
	got, werr := throughInterceptors(e)
	v.Assert("status-code", grpcstatus.Code(werr) == want)
	direct := wire.Hop(e)
	compareTrees(v, "client", nil, direct, got)
	v.Assert("is", sym.And(errors.Is(got, direct), errors.Is(direct, got)))
	accessorsEqual(v, "client", direct, got)
	v.Assert("grpc-code", extgrpc.GetGrpcCode(got) == extgrpc.GetGrpcCode(direct))
	v.Assert("plusv", fmt.Sprintf("%+v", got) == fmt.Sprintf("%+v", direct))
}
