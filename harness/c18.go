package verifh

import (
	"fmt"
	"sync"

	"github.com/cockroachdb/errors"
	"github.com/cockroachdb/errors/errorspb"
	"github.com/cockroachdb/redact"
	"verifh/gen"
	"verifh/sym"
	"verifh/wire"
)

const numObservers = 8

var observerNames = []string{"fmt-v", "fmt-plusv", "redact-plusv", "encode", "is-as", "safedetails", "hints-details", "report"}

// observe runs observer k on e and returns a digest of its result.
func observe(k int, e error) string {
	switch k {
	case 0:
		return fmt.Sprintf("%v", e)
	case 1:
		return fmt.Sprintf("%+v", e)
	case 2:
		return string(redact.Sprintf("%+v", e))
	case 3:
		enc := wire.Encode(e)
		return fmt.Sprint(wire.Count(enc)) + encDigest(enc)
	case 4:
		var t *gen.UserPlain
		return fmt.Sprint(errors.Is(e, sentinelPool[0]), errors.Is(e, e), errors.As(e, &t))
	case 5:
		out := ""
		for _, p := range errors.GetAllSafeDetails(e) {
			out += p.OriginalTypeName + "|" + joinStrings(p.SafeDetails)
		}
		return out
	case 6:
		return errors.FlattenHints(e) + "|" + errors.FlattenDetails(e) + "|" + joinStrings(errors.GetTelemetryKeys(e))
	case 7:
		ev, _ := errors.BuildSentryReport(e)
		return ev.Message
	}
	return ""
}

// encDigest lists type and message of every node of an encoding, in order.
func encDigest(enc *wire.Enc) string {
	switch x := enc.Error.(type) {
	case *errorspb.EncodedError_Leaf:
		out := "L(" + x.Leaf.Details.ErrorTypeMark.FamilyName + ":" + x.Leaf.Message
		for _, c := range x.Leaf.MultierrorCauses {
			out += encDigest(c)
		}
		return out + ")"
	case *errorspb.EncodedError_Wrapper:
		return "W(" + x.Wrapper.Details.ErrorTypeMark.FamilyName + ":" + x.Wrapper.Message + encDigest(&x.Wrapper.Cause) + ")"
	}
	return "?"
}

// H_C18_ReadOnly: observers only read a shared error value. Under the engine
// the write monitor records every store to memory that existed before
// Freeze (the error and all package-level state); natively (replay) the
// observers run from 16 goroutines under the race detector.
func H_C18_ReadOnly(v *sym.V) {
	g := newG(v, sym.REGNN)
	g.ClsSafe = sym.Class(v.Param("safecls", int(sym.REGNN))) // HOST: safe strings that are not valid UTF-8
	b := build(v, g, "e")
	e := b.Err
	if v.Choice("decoded", 2) == 1 {
		e = wire.Hop(e)
	}
	k := v.Choice("observer", numObservers)
	if !v.Symbolic() {
		// native replay: concurrent observers under -race (no call before the
		// goroutines start, so that a lazily initialised field is raced on);
		// all results must agree with each other and with a later call alone
		var wg sync.WaitGroup
		results := make([]string, 16)
		for i := 0; i < 16; i++ {
			wg.Add(1)
			go func(i int) {
				defer wg.Done()
				for j := 0; j < 20; j++ {
					results[i] = observe(k, e)
				}
			}(i)
		}
		wg.Wait()
		alone := observe(k, e)
		same := true
		for _, r := range results {
			same = same && r == alone
		}
		v.Assert("deterministic@"+observerNames[k], same)
		return
	}
	// warm-up outside the monitored region: lazily initialised, lock-protected
	// caches of fmt/redact/sync.Pool are not the subject
	v.Freeze()
	r1 := observe(k, e)
	w := v.SharedWrites()
	r2 := observe(k, e)
	v.Unfreeze()
	v.Assert("no-shared-write@"+observerNames[k], w == 0)
	v.Assert("deterministic@"+observerNames[k], r1 == r2)
}
