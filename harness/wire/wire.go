// Package wire: network hops, wire renaming (unknowing processes) and
// structural comparison of encoded errors.
package wire

import (
	"bytes"
	"context"

	"github.com/cockroachdb/errors"
	"github.com/cockroachdb/errors/errorspb"
	"github.com/gogo/protobuf/types"
	"verifh/sym"
)

type Enc = errorspb.EncodedError

// Copy sends an encoded error through protobuf bytes (natively: Marshal then
// Unmarshal; under the engine: a deep copy of the message structure).
func Copy(e *Enc) *Enc {
	b, err := e.Marshal()
	if err != nil {
		panic("wire: marshal: " + err.Error())
	}
	out := &Enc{}
	if err := out.Unmarshal(b); err != nil {
		panic("wire: unmarshal: " + err.Error())
	}
	return out
}

// AnyEqual compares two Any payloads (natively: type URL and bytes; under the
// engine: deep structural equality of the carried messages).
func AnyEqual(a, b *types.Any) bool {
	if a == nil || b == nil {
		return a == b
	}
	return a.TypeUrl == b.TypeUrl && bytes.Equal(a.Value, b.Value)
}

var ctx = context.Background()

func Encode(e error) *Enc {
	enc := errors.EncodeError(ctx, e)
	return &enc
}

func Decode(enc *Enc) error { return errors.DecodeError(ctx, *enc) }

// Hop is one network transfer between processes that know the same types.
func Hop(e error) error { return Decode(Copy(Encode(e))) }

func detailsEq(a, b *errorspb.EncodedErrorDetails) bool {
	r := sym.And(a.OriginalTypeName == b.OriginalTypeName,
		sym.And(a.ErrorTypeMark.FamilyName == b.ErrorTypeMark.FamilyName, a.ErrorTypeMark.Extension == b.ErrorTypeMark.Extension))
	if len(a.ReportablePayload) != len(b.ReportablePayload) {
		return false
	}
	for i := range a.ReportablePayload {
		r = sym.And(r, a.ReportablePayload[i] == b.ReportablePayload[i])
	}
	return sym.And(r, AnyEqual(a.FullDetails, b.FullDetails))
}

// Equal is structural equality of two wire messages.
func Equal(a, b *Enc) bool {
	switch x := a.Error.(type) {
	case *errorspb.EncodedError_Leaf:
		y, ok := b.Error.(*errorspb.EncodedError_Leaf)
		if !ok {
			return false
		}
		r := sym.And(x.Leaf.Message == y.Leaf.Message, detailsEq(&x.Leaf.Details, &y.Leaf.Details))
		if len(x.Leaf.MultierrorCauses) != len(y.Leaf.MultierrorCauses) {
			return false
		}
		for i := range x.Leaf.MultierrorCauses {
			r = sym.And(r, Equal(x.Leaf.MultierrorCauses[i], y.Leaf.MultierrorCauses[i]))
		}
		return r
	case *errorspb.EncodedError_Wrapper:
		y, ok := b.Error.(*errorspb.EncodedError_Wrapper)
		if !ok {
			return false
		}
		r := sym.And(x.Wrapper.Message == y.Wrapper.Message, detailsEq(&x.Wrapper.Details, &y.Wrapper.Details))
		r = sym.And(r, x.Wrapper.MessageType == y.Wrapper.MessageType)
		return sym.And(r, Equal(&x.Wrapper.Cause, &y.Wrapper.Cause))
	case nil:
		return b.Error == nil
	}
	return false
}

// Rename makes every node of enc whose index bit is set in mask unknown to the
// receiver by changing its family name (the original type name is kept, as a
// process running other code would see it). Nodes are numbered in pre-order
// over causes and multi-error branches (payload-nested errors are not renamed).
func Rename(enc *Enc, mask int, suffix string) {
	n := 0
	rename(enc, mask, suffix, &n)
}

func rename(enc *Enc, mask int, suffix string, n *int) {
	bit := mask&(1<<uint(*n)) != 0
	*n++
	switch x := enc.Error.(type) {
	case *errorspb.EncodedError_Leaf:
		if bit {
			x.Leaf.Details.ErrorTypeMark.FamilyName += suffix
		}
		for _, c := range x.Leaf.MultierrorCauses {
			rename(c, mask, suffix, n)
		}
	case *errorspb.EncodedError_Wrapper:
		if bit {
			x.Wrapper.Details.ErrorTypeMark.FamilyName += suffix
		}
		rename(&x.Wrapper.Cause, mask, suffix, n)
	}
}

// Reprefix puts prefix in front of the family names of the layers selected by
// mask: what a sender that moved those types from another directory transmits.
func Reprefix(enc *Enc, mask int, prefix string) {
	n := 0
	reprefix(enc, mask, prefix, &n)
}

func reprefix(enc *Enc, mask int, prefix string, n *int) {
	bit := mask&(1<<uint(*n)) != 0
	*n++
	switch x := enc.Error.(type) {
	case *errorspb.EncodedError_Leaf:
		if bit {
			x.Leaf.Details.ErrorTypeMark.FamilyName = prefix + x.Leaf.Details.ErrorTypeMark.FamilyName
		}
		for _, c := range x.Leaf.MultierrorCauses {
			reprefix(c, mask, prefix, n)
		}
	case *errorspb.EncodedError_Wrapper:
		if bit {
			x.Wrapper.Details.ErrorTypeMark.FamilyName = prefix + x.Wrapper.Details.ErrorTypeMark.FamilyName
		}
		reprefix(&x.Wrapper.Cause, mask, prefix, n)
	}
}

// Unrename undoes Rename.
func Unrename(enc *Enc, suffix string) {
	strip := func(s string) string {
		if len(s) >= len(suffix) && s[len(s)-len(suffix):] == suffix {
			return s[:len(s)-len(suffix)]
		}
		return s
	}
	switch x := enc.Error.(type) {
	case *errorspb.EncodedError_Leaf:
		x.Leaf.Details.ErrorTypeMark.FamilyName = strip(x.Leaf.Details.ErrorTypeMark.FamilyName)
		for _, c := range x.Leaf.MultierrorCauses {
			Unrename(c, suffix)
		}
	case *errorspb.EncodedError_Wrapper:
		x.Wrapper.Details.ErrorTypeMark.FamilyName = strip(x.Wrapper.Details.ErrorTypeMark.FamilyName)
		Unrename(&x.Wrapper.Cause, suffix)
	}
}

// Count returns the number of nodes Rename numbers.
func Count(enc *Enc) int {
	switch x := enc.Error.(type) {
	case *errorspb.EncodedError_Leaf:
		n := 1
		for _, c := range x.Leaf.MultierrorCauses {
			n += Count(c)
		}
		return n
	case *errorspb.EncodedError_Wrapper:
		return 1 + Count(&x.Wrapper.Cause)
	}
	return 0
}
