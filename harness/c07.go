package verifh

import (
	"context"
	"fmt"

	"github.com/cockroachdb/errors"
	"github.com/cockroachdb/errors/errbase"
	"github.com/cockroachdb/errors/extgrpc"
	"github.com/cockroachdb/errors/exthttp"
	"verifh/gen"
	"verifh/sym"
	"verifh/wire"
)

var hiddenAnnots = []gen.Kind{gen.WHint, gen.WDetail, gen.WDomain, gen.WTelemetry, gen.WHTTP, gen.WGrpc, gen.WAssertFail, gen.WIssueLink, gen.WSafeDetails}

const numHiders = 11

type plainErr struct{ msg string }

func (e *plainErr) Error() string { return e.msg }

// hide builds the error that hides h (a barrier, a secondary error, an error
// argument, a Mark reference).
func hide(kind int, base, h error, m string) error {
	switch kind {
	case 0:
		return errors.Handled(h)
	case 1:
		return errors.HandledWithMessage(h, m)
	case 2:
		return errors.HandledInDomain(h, errors.NamedDomain("outer"))
	case 3:
		return errors.HandleAsAssertionFailure(h)
	case 4:
		return errors.NewAssertionErrorWithWrappedErrf(h, "x")
	case 5:
		return errors.WithSecondaryError(base, h)
	case 6:
		return errors.CombineErrors(base, h)
	case 7:
		return errors.Wrapf(base, "arg %v", h)
	case 8:
		return errors.Mark(base, h)
	case 9:
		return errors.Newf("while handling: %v", h)
	case 10:
		return errors.AssertionFailedf("unexpected: %v", h)
	}
	panic("hide")
}

func chainHas(e error, nodes []error) bool {
	res := false
	for c := e; c != nil; c = errors.UnwrapOnce(c) {
		for _, n := range nodes {
			res = sym.Or(res, c == n)
		}
		for _, me := range errbase.UnwrapMulti(c) {
			res = sym.Or(res, chainHas(me, nodes))
		}
	}
	return res
}

// sameAnalysis: every accessor and predicate gives the same answer on a and b.
func sameAnalysis(v *sym.V, tag string, a, b error, probes []error) {
	accessorsEqual(v, tag, a, b)
	ka, kb := errors.GetTelemetryKeys(a), errors.GetTelemetryKeys(b)
	v.Assert("telemetry@"+tag, len(ka) == len(kb))
	v.Assert("http@"+tag, exthttp.GetHTTPCode(a, 1) == exthttp.GetHTTPCode(b, 1))
	v.Assert("grpc@"+tag, extgrpc.GetGrpcCode(a) == extgrpc.GetGrpcCode(b))
	v.Assert("assertflag@"+tag, errors.IsAssertionFailure(a) == errors.IsAssertionFailure(b))
	for _, p := range probes {
		v.Assert("is-probe@"+tag, errors.Is(a, p) == errors.Is(b, p))
		v.Assert("isany-probe@"+tag, errors.IsAny(a, p) == errors.IsAny(b, p))
		v.Assert("hastype-probe@"+tag, errors.HasType(a, p) == errors.HasType(b, p))
	}
	var ta, tb *gen.UserPlain
	v.Assert("as@"+tag, errors.As(a, &ta) == errors.As(b, &tb))
}

// H_C07_Hidden: what sits behind a barrier / in a secondary error / in a Mark
// reference is invisible to cause analysis, visible in %+v and in safe details.
func H_C07_Hidden(v *sym.V) {
	g := newG(v, sym.REGNN)
	// hidden sub-recipe with annotations
	hb := g.Leaf("h.0", []gen.Kind{gen.LNew, gen.LUserPlain, gen.LCtxCanceled})
	na := v.Choice("h.annots", v.Param("annots", 2)+1)
	for i := 0; i < na; i++ {
		hb = g.Wrap(fmt.Sprintf("h.%d", i+1), hb, hiddenAnnots)
	}
	h := hb.Err
	plain := &plainErr{h.Error()} // same text, no annotations, a type of its own
	var base error = errors.New("base")
	switch v.Choice("base", 3) {
	case 1:
		base = errors.Wrap(context.Canceled, "base") // a primary error whose root is a well-known sentinel
	case 2:
		base = errors.WithDetail(errors.New(""), "pd") // a primary error whose whole text is empty
	}
	kind := v.Choice("hider", numHiders)
	m := v.Str("msg", sym.REGNN, 0, 1) // the replacement message, possibly empty
	e := hide(kind, base, h, m)
	ep := hide(kind, base, plain, m)
	tag := fmt.Sprintf("hider%d", kind)

	// not reachable
	var hnodes []error
	for c := h; c != nil; c = errors.UnwrapOnce(c) {
		hnodes = append(hnodes, c)
	}
	// (a hidden sentinel object may also be part of the visible primary error)
	v.Assert("unreachable@"+tag, chainHas(e, hnodes) == (kind >= 5 && kind <= 8 && chainHas(base, hnodes)))
	inner := hnodes[1:]
	if kind != 8 {
		inner = hnodes
	}
	probes := append([]error{}, inner...)
	if kind != 8 {
		// (for Mark the reference itself, and anything identical to it, matches by design)
		probes = append(probes, sentinelPool[0])
	}
	sameAnalysis(v, tag, e, ep, probes)
	for _, n := range inner {
		// the hidden part adds nothing: e matches a hidden node only if the visible part does
		visible := kind >= 5 && kind <= 8 && errors.Is(base, n)
		v.Assert("is-hidden@"+tag, errors.Is(e, n) == visible)
	}
	switch kind {
	case 0:
		v.Assert("handled-text", e.Error() == h.Error())
	case 1:
		v.Assert("handledmsg-text", e.Error() == m)
	}
	if kind != 8 {
		p := fmt.Sprintf("%+v", e)
		for _, hint := range hb.Hints {
			v.Assert("plusv-shows-hidden@"+tag, sym.Contains(p, hint))
		}
		v.Assert("plusv-shows-hidden-text@"+tag, sym.Contains(p, hb.Text))
		if hb.Kinds[0] == gen.WSafeDetails || hb.Kinds[0] == gen.WTelemetry {
			tok := hb.Safe[len(hb.Safe)-1]
			found := false
			for _, pl := range errors.GetAllSafeDetails(e) {
				for _, d := range pl.SafeDetails {
					found = sym.Or(found, sym.Contains(d, tok))
				}
			}
			v.Assert("safedetails-keep-hidden@"+tag, found)
		}
	}
	// after transfer
	e1, ep1 := wire.Hop(e), wire.Hop(ep)
	v.Assert("text-after-hop@"+tag, e1.Error() == e.Error())
	sameAnalysis(v, tag+"/hop", e1, ep1, probes)
	for _, n := range inner {
		visible := kind >= 5 && kind <= 8 && errors.Is(base, n)
		v.Assert("is-hidden@"+tag+"/hop", errors.Is(e1, n) == visible)
	}
}
