package verifh

import (
	stderrors "errors"
	"fmt"

	"github.com/cockroachdb/errors"
	"github.com/cockroachdb/errors/errbase"
	"verifh/gen"
	"verifh/sym"
	"verifh/wire"
)

var branchWrappers = []gen.Kind{gen.WWrap, gen.WUserPrefix}

// buildBranch: a leaf, optionally wrapped once.
func buildBranch(v *sym.V, g *gen.G, name string) *gen.B {
	b := g.Leaf(name, []gen.Kind{gen.LNew, gen.LUserPlain, gen.LCtxCanceled})
	if v.Param("wrapbranches", 1) == 1 && v.Choice(name+".wrapped", 2) == 1 {
		b = g.Wrap(name+".w", b, branchWrappers)
	}
	return b
}

func mkMulti(v *sym.V, name string, bs []*gen.B) (error, string) {
	errs := make([]error, len(bs))
	text := ""
	for i, b := range bs {
		errs[i] = b.Err
		if i > 0 {
			text += "\n"
		}
		text += b.Text
	}
	kind := v.Choice(name+".multi", 4)
	if len(errs) == 1 && kind == 2 {
		kind = 3 // the fmt form needs two %w
	}
	switch kind {
	case 0:
		return errors.Join(errs...), text
	case 1:
		return stderrors.Join(errs...), text
	case 2:
		if len(errs) == 2 {
			return fmt.Errorf("%w & %w", errs[0], errs[1]), bs[0].Text + " & " + bs[1].Text
		}
		return fmt.Errorf("%w & %w & %w", errs[0], errs[1], errs[2]), bs[0].Text + " & " + bs[1].Text + " & " + bs[2].Text
	}
	return &gen.UserMulti{Msg: "um", Errs: errs}, "um"
}

// H_C13_Tree: multi-cause errors behave as a tree for Is/IsAny/As/Unwrap, have
// the documented text, and keep branch count, order and content across hops.
func H_C13_Tree(v *sym.V) {
	g := newG(v, sym.REGNN)
	n := 1 + v.Choice("branches", v.Param("maxbranches", 2)) // 1 .. maxbranches
	var bs []*gen.B
	for i := 0; i < n; i++ {
		bs = append(bs, buildBranch(v, g, fmt.Sprintf("b%d", i)))
	}
	if n >= 2 && v.Choice("share", 2) == 1 {
		// the second branch holds the very same leaf object as the first
		l := bs[0].Leaf
		bs[1] = &gen.B{Err: errors.Wrap(l, "s"), Text: "s: " + l.Error(), Leaf: l}
	}
	multi, text := mkMulti(v, "m", bs)
	if v.Param("nested", 1) == 1 && v.Choice("nested", 2) == 1 {
		// nest the multi-cause node as the first branch of an outer one
		outerB := buildBranch(v, g, "o")
		multi = errors.Join(multi, outerB.Err)
		text = text + "\n" + outerB.Text
		bs = append(bs, outerB)
	}
	e := multi
	if v.Choice("wrapped", 2) == 1 {
		e = errors.WithHint(errors.WithStack(e), "h")
	}
	v.Assert("text", e.Error() == text)
	// the multi-cause node proper (errors.Join attaches a stack on top of it)
	node := multi
	for len(errbase.UnwrapMulti(node)) == 0 && errors.UnwrapOnce(node) != nil {
		node = errors.UnwrapOnce(node)
	}
	v.Assert("unwrap-nil", errors.Unwrap(node) == nil && errors.UnwrapOnce(node) == nil && stderrors.Unwrap(node) == nil)
	v.Assert("unwrapall-stops", errors.UnwrapAll(e) == node)

	// reference: a leaf of one of the branches, a pool sentinel, or a fresh equal-looking leaf
	var r error
	switch v.Choice("ref", 4) {
	case 0:
		r = bs[0].Leaf
	case 1:
		r = bs[len(bs)-1].Leaf
	case 2:
		r = sentinelPool[0]
	case 3:
		r = &gen.UserPlain{Msg: g.StrU("fresh")}
	}
	anyBranch := false
	for _, b := range bs {
		anyBranch = sym.Or(anyBranch, errors.Is(b.Err, r))
	}
	v.Assert("is==some-branch", errors.Is(e, r) == anyBranch)
	v.Assert("isany==some-branch", errors.IsAny(e, r) == anyBranch)
	v.Assert("std-is-implies", sym.Implies(stderrors.Is(e, r), errors.Is(e, r)))

	// As finds the first branch (in order) that holds a *UserPlain
	var target *gen.UserPlain
	got := errors.As(e, &target)
	var want *gen.UserPlain
	for _, b := range bs {
		if want == nil {
			var t *gen.UserPlain
			if errors.As(b.Err, &t) {
				want = t
			}
		}
	}
	v.Assert("as-found", got == (want != nil))
	v.Assert("as-first", target == want)
	var stdTarget *gen.UserPlain
	v.Assert("as==std", stderrors.As(e, &stdTarget) == got && stdTarget == target)

	// transfer
	h := wire.Hop(e)
	compareTrees(v, "hop", nil, e, h)
	enc := wire.Copy(wire.Encode(e))
	wire.Rename(enc, -1, "~u")
	u := wire.Decode(enc)
	compareTrees(v, "unknowing", nil, e, u)
	v.Assert("is-after-hop", errors.Is(h, r) == errors.Is(e, r))
	v.Assert("branch-count-hop", len(errbase.UnwrapMulti(errors.UnwrapAll(h))) == len(errbase.UnwrapMulti(node)))

	// %+v shows every branch, one numbered entry per layer
	p := fmt.Sprintf("%+v", errors.Formattable(e))
	nl := len(printOrder(e, nil))
	for k := 2; k <= nl; k++ {
		v.Assert("plusv-entry-per-layer", entryLines(p, fmt.Sprintf("Wraps: (%d)", k)) == 1)
	}
	for _, b := range bs {
		// every branch has entries of its own: the message of its root cause is displayed
		v.Assert("plusv-shows-branch", sym.Contains(p, errors.UnwrapAll(b.Err).Error()))
	}
}

// H_C13_Join: Join drops nils, returns nil when nothing remains, joins texts with newlines.
func H_C13_Join(v *sym.V) {
	g := newG(v, sym.REG)
	g.Slim = true
	var args, kept []error
	var texts []string
	n := v.Choice("n", 4)
	for i := 0; i < n; i++ {
		if v.Choice(fmt.Sprintf("nil%d", i), 2) == 1 {
			args = append(args, nil)
			continue
		}
		// an argument may itself be a join (accumulation loops: err = Join(err, x)), bare or wrapped
		var b *gen.B
		switch v.Choice(fmt.Sprintf("kind%d", i), 4) {
		case 0:
			b = g.LeafOf(fmt.Sprintf("a%d", i), gen.LNew)
		case 1:
			b = g.LeafOf(fmt.Sprintf("a%d", i), gen.LStd)
		case 2:
			b = &gen.B{Err: errors.Join(errors.New("p"), stderrors.New("q")), Text: "p\nq"}
		case 3:
			b = &gen.B{Err: errors.Wrap(errors.Join(errors.New("p"), stderrors.New("q")), "w"), Text: "w: p\nq"}
		}
		args = append(args, b.Err)
		kept = append(kept, b.Err)
		texts = append(texts, b.Text)
	}
	j := errors.Join(args...)
	if len(texts) == 0 {
		v.Assert("join-nil", j == nil)
		return
	}
	v.Assert("join-non-nil", j != nil)
	v.Assert("join-text", j.Error() == joinSep(texts, "\n"))
	br := errbase.UnwrapMulti(errors.UnwrapAll(j))
	v.Assert("join-branches", len(br) == len(texts))
	if len(br) == len(kept) {
		same := true
		for i := range br {
			same = same && br[i] == kept[i]
		}
		v.Assert("join-branch-identity", same)
	}
	// branch count and nesting survive a transfer, node by node
	cmpTree(v, "join-hop", j, wire.Hop(j))
}
