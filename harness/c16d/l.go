// Package c16d: helper L3 of the C16 call chain (caller at depth 3).
package c16d

import (
	"github.com/cockroachdb/errors"
	"verifh/c16c"
	"verifh/sym"
)

//go:noinline
func L3(v *sym.V, which int, d int) (error, errors.Domain) {
	return c16c.L2(v, which, d)
}
