package verifh

import (
	"fmt"

	"github.com/cockroachdb/errors"
	"github.com/cockroachdb/redact"
	"verifh/sym"
)

func H_Smoke(v *sym.V) {
	m := v.Str("m", sym.REGNN, 1, 2)
	e := errors.New(m)
	s := fmt.Sprintf("%v", e)
	v.Observe("v", s)
	v.Assert("v==m", s == m)
	w := errors.Wrap(e, "pre")
	v.Observe("w", w.Error())
	v.Assert("wrap", w.Error() == "pre: "+m)
	r := string(redact.Sprint(w))
	v.Observe("r", r)
	p := fmt.Sprintf("%+v", w)
	v.Observe("plus", p)
}
