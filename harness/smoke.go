package verifh

import (
	"context"
	"fmt"

	"github.com/cockroachdb/errors"
	"github.com/cockroachdb/errors/extgrpc"
	"github.com/cockroachdb/errors/exthttp"
	"github.com/cockroachdb/redact"
	"google.golang.org/grpc/codes"
	"verifh/sym"
)

func H_Smoke(v *sym.V) {
	m := v.Str("m", sym.REGNN, 1, 2)
	e := errors.New(m)
	s := fmt.Sprintf("%v", e)
	v.Observe("v", s)
	v.Assert("v==m", s == m)
	w := errors.Wrap(e, "pre")
	v.Observe("w", w.Error())
	v.Assert("wrap", w.Error() == "pre: "+m)
	r := string(redact.Sprint(w))
	v.Observe("r", r)
	p := fmt.Sprintf("%+v", w)
	v.Observe("plus", p)
	x := exthttp.WrapWithHTTPCode(extgrpc.WrapWithGrpcCode(w, codes.Code(v.Uint32("code"))), 404)
	enc := errors.EncodeError(context.Background(), x)
	d := errors.DecodeError(context.Background(), enc)
	v.Observe("d", fmt.Sprintf("%+v", d))
	v.Assert("code", extgrpc.GetGrpcCode(d) == extgrpc.GetGrpcCode(x))
}
