package verifh

import (
	"context"
	stderrors "errors"
	"fmt"

	"github.com/cockroachdb/errors"
	"github.com/cockroachdb/errors/extgrpc"
	"github.com/cockroachdb/errors/exthttp"
	"github.com/cockroachdb/logtags"
	"google.golang.org/grpc/codes"
	"verifh/gen"
	"verifh/sym"
)

// H_C10_Text: Error() at the outermost node equals the compositional model for
// every recipe; the root cause is the recipe's leaf.
func H_C10_Text(v *sym.V) {
	g := newG(v, sym.REG)
	b := build(v, g, "e")
	e := b.Err
	k := fmt.Sprintf("%T", e)
	v.Observe("text", e.Error())
	v.Assert("text@"+k, e.Error() == b.Text)
	root := errors.UnwrapAll(e)
	v.Assert("root-type@"+k, fmt.Sprintf("%T", root) == fmt.Sprintf("%T", b.Leaf))
	if b.Kinds[len(b.Kinds)-1] != gen.LUserNonComparable {
		v.Assert("root@"+k, root == b.Leaf)
	}
	v.Assert("cause==unwrapall", fmt.Sprintf("%T", errors.Cause(e)) == fmt.Sprintf("%T", root))
}

type nilCase struct {
	name string
	f    func() error
}

// H_C10_Nil: every wrapper constructor returns nil for a nil error; the
// documented pass-through cases; leaf constructors return non-nil.
func H_C10_Nil(v *sym.V) {
	some := stderrors.New("some")
	ctx := context.Background()
	wrappers := []nilCase{
		{"WithMessage", func() error { return errors.WithMessage(nil, "m") }},
		{"WithMessagef", func() error { return errors.WithMessagef(nil, "m%d", 1) }},
		{"Wrap", func() error { return errors.Wrap(nil, "m") }},
		{"Wrapf", func() error { return errors.Wrapf(nil, "m%d", 1) }},
		{"WrapWithDepth", func() error { return errors.WrapWithDepth(0, nil, "m") }},
		{"WrapWithDepthf", func() error { return errors.WrapWithDepthf(0, nil, "m%d", 1) }},
		{"WithStack", func() error { return errors.WithStack(nil) }},
		{"WithStackDepth", func() error { return errors.WithStackDepth(nil, 0) }},
		{"WithHint", func() error { return errors.WithHint(nil, "h") }},
		{"WithHintf", func() error { return errors.WithHintf(nil, "h%d", 1) }},
		{"WithDetail", func() error { return errors.WithDetail(nil, "d") }},
		{"WithDetailf", func() error { return errors.WithDetailf(nil, "d%d", 1) }},
		{"WithSafeDetails", func() error { return errors.WithSafeDetails(nil, "d%d", 1) }},
		{"WithTelemetry", func() error { return errors.WithTelemetry(nil, "k") }},
		{"WithDomain", func() error { return errors.WithDomain(nil, errors.NamedDomain("d")) }},
		{"WithIssueLink", func() error { return errors.WithIssueLink(nil, errors.IssueLink{IssueURL: "u"}) }},
		{"WithContextTags", func() error { return errors.WithContextTags(nil, ctx) }},
		{"WithContextTags-tagged", func() error {
			return errors.WithContextTags(nil, logtags.AddTag(ctx, "k", "v"))
		}},
		{"WithAssertionFailure", func() error { return errors.WithAssertionFailure(nil) }},
		{"Mark", func() error { return errors.Mark(nil, some) }},
		{"WithSecondaryError", func() error { return errors.WithSecondaryError(nil, some) }},
		{"Handled", func() error { return errors.Handled(nil) }},
		{"Opaque", func() error { return errors.Opaque(nil) }},
		{"HandledWithMessage", func() error { return errors.HandledWithMessage(nil, "m") }},
		{"HandledInDomain", func() error { return errors.HandledInDomain(nil, errors.NamedDomain("d")) }},
		{"HandledInDomainWithMessage", func() error { return errors.HandledInDomainWithMessage(nil, errors.NamedDomain("d"), "m") }},
		{"HandleAsAssertionFailure", func() error { return errors.HandleAsAssertionFailure(nil) }},
		{"HandleAsAssertionFailureDepth", func() error { return errors.HandleAsAssertionFailureDepth(0, nil) }},
		{"WrapWithHTTPCode", func() error { return exthttp.WrapWithHTTPCode(nil, 404) }},
		{"WrapWithGrpcCode", func() error { return extgrpc.WrapWithGrpcCode(nil, codes.NotFound) }},
		{"NewAssertionErrorWithWrappedErrf", func() error { return errors.NewAssertionErrorWithWrappedErrf(nil, "m") }},
		{"Join-nils", func() error { return errors.Join(nil, nil) }},
		{"Join-empty", func() error { return errors.Join() }},
		{"JoinWithDepth-nils", func() error { return errors.JoinWithDepth(0, nil) }},
		{"CombineErrors-nil-nil", func() error { return errors.CombineErrors(nil, nil) }},
		{"EnsureNotInDomain", func() error {
			return errors.EnsureNotInDomain(nil, func(d errors.Domain, e error) error { return e })
		}},
	}
	i := v.Choice("wrapper", len(wrappers))
	v.Assert("nil@"+wrappers[i].name, wrappers[i].f() == nil)

	v.Assert("CombineErrors(nil,e)=e", errors.CombineErrors(nil, some) == some)
	v.Assert("CombineErrors(e,nil)=e", errors.CombineErrors(some, nil) == some)
	v.Assert("WithSecondaryError(e,nil)=e", errors.WithSecondaryError(some, nil) == some)
	j := errors.Join(nil, some, nil)
	v.Assert("Join-drops-nil", j != nil && j.Error() == "some")

	leaves := []nilCase{
		{"New", func() error { return errors.New("") }},
		{"Newf", func() error { return errors.Newf("") }},
		{"Errorf", func() error { return errors.Errorf("") }},
		{"NewWithDepth", func() error { return errors.NewWithDepth(0, "") }},
		{"NewWithDepthf", func() error { return errors.NewWithDepthf(0, "") }},
		{"AssertionFailedf", func() error { return errors.AssertionFailedf("") }},
		{"AssertionFailedWithDepthf", func() error { return errors.AssertionFailedWithDepthf(0, "") }},
		{"UnimplementedError", func() error { return errors.UnimplementedError(errors.IssueLink{}, "") }},
		{"UnimplementedErrorf", func() error { return errors.UnimplementedErrorf(errors.IssueLink{}, "") }},
	}
	k := v.Choice("leaf", len(leaves))
	v.Assert("non-nil@"+leaves[k].name, leaves[k].f() != nil)
}

// H_C10_Transparent: annotation-only wrappers leave Error(), the root cause and
// every Is / As match of the wrapped error unchanged.
func H_C10_Transparent(v *sym.V) {
	g := newG(v, sym.REGNN)
	b := g.BuildTiered("e", 2, gen.RepLeaves, gen.RepWrappers, []gen.Kind{gen.WMark, gen.WWrap, gen.WDomain, gen.WUserPrefix, gen.WSecondary})
	e := b.Err
	refs := []error{errors.UnwrapAll(e), e, sentinelPool[0]}
	if b.MarkRef != nil {
		refs = append(refs, b.MarkRef)
	}
	r := refs[v.Choice("ref", len(refs))]
	w := g.Wrap("w", b, gen.AnnotWrappers)
	k := w.Kinds[0].String()
	v.Assert("annot-text@"+k, w.Err.Error() == e.Error())
	v.Assert("annot-root@"+k, fmt.Sprintf("%T", errors.UnwrapAll(w.Err)) == fmt.Sprintf("%T", errors.UnwrapAll(e)))
	if _, nc := r.(gen.UserNonComparable); !nc {
		v.Assert("annot-is@"+k, sym.Implies(errors.Is(e, r), errors.Is(w.Err, r)))
	}
	var t1, t2 *gen.UserPlain
	v.Assert("annot-as@"+k, sym.Implies(errors.As(e, &t1), errors.As(w.Err, &t2)))
}
