package main

// Byte-domain reasoning: a boolean term that mentions a single 8-bit input
// variable is decided by evaluating it for all 256 values against the
// variable's current domain. This is constant propagation (exact for the
// variable alone); the solver is still used whenever the variable takes part in
// a relational constraint, or the term mentions several variables.

type byteSet [4]uint64

func (s *byteSet) has(v int) bool { return s[v>>6]&(1<<(uint(v)&63)) != 0 }
func (s *byteSet) set(v int)      { s[v>>6] |= 1 << (uint(v) & 63) }
func (s *byteSet) empty() bool    { return s[0]|s[1]|s[2]|s[3] == 0 }
func (s *byteSet) first() int {
	for v := 0; v < 256; v++ {
		if s.has(v) {
			return v
		}
	}
	return -1
}

func fullByteSet() *byteSet { return &byteSet{^uint64(0), ^uint64(0), ^uint64(0), ^uint64(0)} }

// termVars returns the distinct input variables of t (nil if more than two: callers only care about 0, 1, many).
func (ps *pathState) termVars(t *Term) []*Term {
	if ps.varsMemo == nil {
		ps.varsMemo = map[*Term][]*Term{}
	}
	if v, ok := ps.varsMemo[t]; ok {
		return v
	}
	var r []*Term
	switch t.Op {
	case OConst:
	case OVar:
		r = []*Term{t}
	default:
		for _, a := range []*Term{t.A, t.B, t.D} {
			if a == nil {
				continue
			}
			for _, v := range ps.termVars(a) {
				dup := false
				for _, x := range r {
					if x == v {
						dup = true
					}
				}
				if !dup && len(r) < 3 {
					r = append(r, v)
				}
			}
		}
	}
	ps.varsMemo[t] = r
	return r
}

func (ps *pathState) domOf(v *Term) *byteSet {
	if ps.dom == nil {
		ps.dom = map[*Term]*byteSet{}
	}
	d, ok := ps.dom[v]
	if !ok {
		d = fullByteSet()
		ps.dom[v] = d
	}
	return d
}

// splitByDomain computes, for a boolean term over a single 8-bit variable, the
// sets of domain values making it true / false.
func (ps *pathState) splitByDomain(c *Term) (v *Term, tset, fset *byteSet, ok bool) {
	vs := ps.termVars(c)
	if len(vs) != 1 || vs[0].W != 8 {
		return nil, nil, nil, false
	}
	v = vs[0]
	d := ps.domOf(v)
	tset, fset = &byteSet{}, &byteSet{}
	m := map[*Term]uint64{}
	for x := 0; x < 256; x++ {
		if !d.has(x) {
			continue
		}
		m[v] = uint64(x)
		if c.Eval(m, map[*Term]uint64{}) != 0 {
			tset.set(x)
		} else {
			fset.set(x)
		}
	}
	return v, tset, fset, true
}

// noteLiteral records the effect of an asserted literal on domains.
func (ps *pathState) noteLiteral(lit *Term) {
	vs := ps.termVars(lit)
	if len(vs) == 1 && vs[0].W == 8 {
		if _, tset, _, ok := ps.splitByDomain(lit); ok {
			*ps.domOf(vs[0]) = *tset
		}
		return
	}
	if len(vs) >= 2 {
		if ps.rel == nil {
			ps.rel = map[*Term]bool{}
		}
		for _, v := range vs {
			ps.rel[v] = true
		}
	}
}
