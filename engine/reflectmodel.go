package main

// Model of the reflect / internal/reflectlite subset, computed from go/types
// on the concrete dynamic types the engine tracks.

import (
	"fmt"
	"go/types"
	"strings"
)

// RType is the engine's stand-in for *reflect.rtype / reflectlite.rtype.
type RType struct {
	T    types.Type
	Lite bool
}

// RValue stands in for reflect.Value / reflectlite.Value.
type RValue struct {
	T     types.Type
	V     Value
	Addr  *Cell // non-nil if addressable
	Valid bool
	Lite  bool
	RO    bool // obtained through an unexported field
}

func (in *Interp) zeroSpecial(t *types.Named) (Value, bool) {
	obj := t.Obj()
	if obj.Pkg() == nil {
		return nil, false
	}
	switch obj.Pkg().Path() {
	case "reflect":
		if obj.Name() == "Value" {
			return RValue{}, true
		}
	case "internal/reflectlite":
		switch obj.Name() {
		case "Value":
			return RValue{Lite: true}, true
		case "rtype":
			return RType{Lite: true}, true
		}
	}
	return nil, false
}

func (in *Interp) mkRType(t types.Type, lite bool) Value {
	if t == nil {
		return Iface{}
	}
	t = in.canonType(t)
	if lite {
		return Iface{T: in.canonType(in.env.liteRtype), V: RType{T: t, Lite: true}}
	}
	return Iface{T: in.canonType(in.env.reflectRtypePtr), V: RType{T: t}}
}

// rtypeString renders a type the way the Go runtime does (reflect.Type.String).
func (in *Interp) rtypeString(t types.Type) string {
	if s, ok := in.rtStrCache[t]; ok {
		return s
	}
	s := types.TypeString(t, func(p *types.Package) string { return p.Name() })
	s = strings.ReplaceAll(s, "interface{}", "interface {}")
	s = strings.ReplaceAll(s, "struct{}", "struct {}")
	if s == "any" {
		s = "interface {}"
	}
	in.rtStrCache[t] = s
	return s
}

const (
	kInvalid = iota
	kBool
	kInt
	kInt8
	kInt16
	kInt32
	kInt64
	kUint
	kUint8
	kUint16
	kUint32
	kUint64
	kUintptr
	kFloat32
	kFloat64
	kComplex64
	kComplex128
	kArray
	kChan
	kFunc
	kInterface
	kMap
	kPointer
	kSlice
	kString
	kStruct
	kUnsafePointer
)

func reflectKind(t types.Type) int {
	if t == nil {
		return kInvalid
	}
	switch u := t.Underlying().(type) {
	case *types.Basic:
		switch u.Kind() {
		case types.Bool, types.UntypedBool:
			return kBool
		case types.Int, types.UntypedInt:
			return kInt
		case types.Int8:
			return kInt8
		case types.Int16:
			return kInt16
		case types.Int32, types.UntypedRune:
			return kInt32
		case types.Int64:
			return kInt64
		case types.Uint:
			return kUint
		case types.Uint8:
			return kUint8
		case types.Uint16:
			return kUint16
		case types.Uint32:
			return kUint32
		case types.Uint64:
			return kUint64
		case types.Uintptr:
			return kUintptr
		case types.Float32:
			return kFloat32
		case types.Float64, types.UntypedFloat:
			return kFloat64
		case types.Complex64:
			return kComplex64
		case types.Complex128:
			return kComplex128
		case types.String, types.UntypedString:
			return kString
		case types.UnsafePointer:
			return kUnsafePointer
		}
	case *types.Array:
		return kArray
	case *types.Chan:
		return kChan
	case *types.Signature:
		return kFunc
	case *types.Interface:
		return kInterface
	case *types.Map:
		return kMap
	case *types.Pointer:
		return kPointer
	case *types.Slice:
		return kSlice
	case *types.Struct:
		return kStruct
	}
	return kInvalid
}

func (in *Interp) rv(v Value) RValue {
	r, ok := v.(RValue)
	if !ok {
		panic(in.abort("internal", fmt.Sprintf("expected reflect.Value, got %T", v)))
	}
	return r
}

func (in *Interp) rt(v Value) RType {
	switch x := v.(type) {
	case RType:
		return x
	case Iface:
		if r, ok := x.V.(RType); ok {
			return r
		}
	}
	panic(in.abort("internal", fmt.Sprintf("expected reflect type, got %T", v)))
}

func (in *Interp) reflectPanic(msg string) *targetPanic {
	return &targetPanic{V: Iface{T: types.Typ[types.String], V: mkStr(msg)}}
}

func (in *Interp) kindTerm(k int, lite bool) *Term {
	if lite {
		return in.tf.Const(8, uint64(k)) // internal/abi.Kind is uint8
	}
	return in.tf.Const(64, uint64(k))
}

func (in *Interp) registerReflectIntrinsics() {
	r := in.intrinsics
	for _, lite := range []bool{false, true} {
		lite := lite
		pkg := "reflect"
		tyRecv := "(*reflect.rtype)"
		valRecv := "(reflect.Value)"
		if lite {
			pkg = "internal/reflectlite"
			tyRecv = "(internal/reflectlite.rtype)"
			valRecv = "(internal/reflectlite.Value)"
		}
		r[pkg+".TypeOf"] = func(in *Interp, fr *frame, args []Value) Value {
			i := args[0].(Iface)
			return in.mkRType(i.T, lite)
		}
		r[pkg+".ValueOf"] = func(in *Interp, fr *frame, args []Value) Value {
			i := args[0].(Iface)
			if i.T == nil {
				return RValue{Lite: lite}
			}
			return RValue{T: i.T, V: i.V, Valid: true, Lite: lite}
		}
		r[tyRecv+".String"] = func(in *Interp, fr *frame, args []Value) Value {
			return mkStr(in.rtypeString(in.rt(args[0]).T))
		}
		r[tyRecv+".Name"] = func(in *Interp, fr *frame, args []Value) Value {
			t := in.rt(args[0]).T
			switch t := t.(type) {
			case *types.Named:
				return mkStr(t.Obj().Name())
			case *types.Basic:
				return mkStr(t.Name())
			}
			return mkStr("")
		}
		r[tyRecv+".PkgPath"] = func(in *Interp, fr *frame, args []Value) Value {
			t := in.rt(args[0]).T
			if n, ok := t.(*types.Named); ok && n.Obj().Pkg() != nil {
				return mkStr(n.Obj().Pkg().Path())
			}
			return mkStr("")
		}
		r[tyRecv+".Kind"] = func(in *Interp, fr *frame, args []Value) Value {
			return in.kindTerm(reflectKind(in.rt(args[0]).T), lite)
		}
		r[tyRecv+".Elem"] = func(in *Interp, fr *frame, args []Value) Value {
			t := in.rt(args[0]).T
			switch u := t.Underlying().(type) {
			case *types.Pointer:
				return in.mkRType(u.Elem(), lite)
			case *types.Slice:
				return in.mkRType(u.Elem(), lite)
			case *types.Array:
				return in.mkRType(u.Elem(), lite)
			case *types.Map:
				return in.mkRType(u.Elem(), lite)
			case *types.Chan:
				return in.mkRType(u.Elem(), lite)
			}
			panic(in.reflectPanic("reflect: Elem of invalid type " + in.rtypeString(t)))
		}
		r[tyRecv+".Key"] = func(in *Interp, fr *frame, args []Value) Value {
			t := in.rt(args[0]).T
			if u, ok := t.Underlying().(*types.Map); ok {
				return in.mkRType(u.Key(), lite)
			}
			panic(in.reflectPanic("reflect: Key of non-map type " + in.rtypeString(t)))
		}
		r[tyRecv+".Comparable"] = func(in *Interp, fr *frame, args []Value) Value {
			return in.tf.Bool(types.Comparable(in.rt(args[0]).T))
		}
		r[tyRecv+".Implements"] = func(in *Interp, fr *frame, args []Value) Value {
			t := in.rt(args[0]).T
			u := in.rt(args[1]).T
			it, ok := u.Underlying().(*types.Interface)
			if !ok {
				panic(in.reflectPanic("reflect: non-interface type passed to Type.Implements"))
			}
			return in.tf.Bool(types.Implements(t, it))
		}
		r[tyRecv+".AssignableTo"] = func(in *Interp, fr *frame, args []Value) Value {
			t := in.rt(args[0]).T
			u := in.rt(args[1]).T
			return in.tf.Bool(types.AssignableTo(t, u))
		}
		r[tyRecv+".ConvertibleTo"] = func(in *Interp, fr *frame, args []Value) Value {
			return in.tf.Bool(types.ConvertibleTo(in.rt(args[0]).T, in.rt(args[1]).T))
		}
		r[tyRecv+".NumMethod"] = func(in *Interp, fr *frame, args []Value) Value {
			t := in.rt(args[0]).T
			ms := types.NewMethodSet(t)
			n := 0
			for i := 0; i < ms.Len(); i++ {
				if ms.At(i).Obj().Exported() {
					n++
				}
			}
			if it, ok := t.Underlying().(*types.Interface); ok {
				n = it.NumMethods()
			}
			return in.tf.Const(64, uint64(n))
		}
		r[tyRecv+".NumField"] = func(in *Interp, fr *frame, args []Value) Value {
			t := in.rt(args[0]).T
			if st, ok := t.Underlying().(*types.Struct); ok {
				return in.tf.Const(64, uint64(st.NumFields()))
			}
			panic(in.reflectPanic("reflect: NumField of non-struct type " + in.rtypeString(t)))
		}
		r[tyRecv+".Len"] = func(in *Interp, fr *frame, args []Value) Value {
			t := in.rt(args[0]).T
			if a, ok := t.Underlying().(*types.Array); ok {
				return in.tf.Const(64, uint64(a.Len()))
			}
			panic(in.reflectPanic("reflect: Len of non-array type " + in.rtypeString(t)))
		}
		r[tyRecv+".Size"] = func(in *Interp, fr *frame, args []Value) Value {
			return in.tf.Const(64, uint64(types.SizesFor("gc", "amd64").Sizeof(in.rt(args[0]).T)))
		}

		// ---- Value
		r[valRecv+".IsValid"] = func(in *Interp, fr *frame, args []Value) Value { return in.tf.Bool(in.rv(args[0]).Valid) }
		r[valRecv+".Kind"] = func(in *Interp, fr *frame, args []Value) Value {
			v := in.rv(args[0])
			if !v.Valid {
				return in.kindTerm(kInvalid, lite)
			}
			return in.kindTerm(reflectKind(v.T), lite)
		}
		r[valRecv+".Type"] = func(in *Interp, fr *frame, args []Value) Value {
			v := in.rv(args[0])
			if !v.Valid {
				panic(in.reflectPanic("reflect: call of reflect.Value.Type on zero Value"))
			}
			return in.mkRType(v.T, lite)
		}
		r[valRecv+".IsNil"] = func(in *Interp, fr *frame, args []Value) Value {
			v := in.rv(args[0])
			switch x := v.V.(type) {
			case *Cell:
				return in.tf.Bool(x == nil)
			case Slice:
				return in.tf.Bool(x.Nil)
			case *Map:
				return in.tf.Bool(x == nil)
			case Iface:
				return in.tf.Bool(x.T == nil)
			case *Closure:
				return in.tf.Bool(x == nil)
			case *Chan:
				return in.tf.Bool(x == nil)
			case UPtr:
				return in.tf.Bool(x.P == nil)
			case nil:
				return tTrue
			}
			if reflectKind(v.T) == kFunc {
				return tFalse
			}
			panic(in.reflectPanic("reflect: call of reflect.Value.IsNil on " + in.rtypeString(v.T) + " Value"))
		}
		r[valRecv+".Elem"] = func(in *Interp, fr *frame, args []Value) Value {
			v := in.rv(args[0])
			switch x := v.V.(type) {
			case *Cell:
				if x == nil {
					return RValue{Lite: lite}
				}
				et := v.T.Underlying().(*types.Pointer).Elem()
				return RValue{T: in.canonType(et), V: x.V, Addr: x, Valid: true, Lite: lite, RO: v.RO}
			case Iface:
				if x.T == nil {
					return RValue{Lite: lite}
				}
				return RValue{T: x.T, V: x.V, Valid: true, Lite: lite, RO: v.RO}
			}
			panic(in.reflectPanic("reflect: call of reflect.Value.Elem on " + in.rtypeString(v.T) + " Value"))
		}
		r[valRecv+".Set"] = func(in *Interp, fr *frame, args []Value) Value {
			v := in.rv(args[0])
			x := in.rv(args[1])
			if v.Addr == nil {
				panic(in.reflectPanic("reflect: reflect.Value.Set using unaddressable value"))
			}
			var nv Value
			if _, isIface := v.T.Underlying().(*types.Interface); isIface {
				if _, srcIface := x.T.Underlying().(*types.Interface); srcIface {
					nv = x.V
				} else {
					nv = Iface{T: x.T, V: x.V}
				}
			} else {
				if !types.AssignableTo(x.T, v.T) {
					panic(in.reflectPanic("reflect.Set: value of type " + in.rtypeString(x.T) + " is not assignable to type " + in.rtypeString(v.T)))
				}
				nv = in.copyVal(x.V)
			}
			in.store(v.Addr, nv)
			return nil
		}
		r[valRecv+".Convert"] = func(in *Interp, fr *frame, args []Value) Value {
			v := in.rv(args[0])
			t := in.rt(args[1]).T
			if !types.ConvertibleTo(v.T, t) {
				panic(in.reflectPanic("reflect.Value.Convert: value of type " + in.rtypeString(v.T) + " cannot be converted to type " + in.rtypeString(t)))
			}
			if _, isIface := t.Underlying().(*types.Interface); isIface {
				if _, srcIface := v.T.Underlying().(*types.Interface); srcIface {
					return RValue{T: t, V: v.V, Valid: true, Lite: lite}
				}
				return RValue{T: t, V: Iface{T: v.T, V: v.V}, Valid: true, Lite: lite}
			}
			// same representation (identical underlying types, pointer/struct/string kinds)
			if types.Identical(v.T.Underlying(), t.Underlying()) || reflectKind(v.T) == reflectKind(t) && (reflectKind(t) == kPointer || reflectKind(t) == kStruct || reflectKind(t) == kString) {
				return RValue{T: in.canonType(t), V: in.copyVal(v.V), Valid: true, Lite: lite}
			}
			panic(in.abort("unsupported", "reflect.Value.Convert "+in.rtypeString(v.T)+" -> "+in.rtypeString(t)))
		}
		r[valRecv+".CanConvert"] = func(in *Interp, fr *frame, args []Value) Value {
			return in.tf.Bool(types.ConvertibleTo(in.rv(args[0]).T, in.rt(args[1]).T))
		}
		r[valRecv+".CanSet"] = func(in *Interp, fr *frame, args []Value) Value {
			v := in.rv(args[0])
			return in.tf.Bool(v.Addr != nil && !v.RO)
		}
		r[valRecv+".CanAddr"] = func(in *Interp, fr *frame, args []Value) Value {
			return in.tf.Bool(in.rv(args[0]).Addr != nil)
		}
		r[valRecv+".CanInterface"] = func(in *Interp, fr *frame, args []Value) Value {
			v := in.rv(args[0])
			if !v.Valid {
				panic(in.reflectPanic("reflect: call of reflect.Value.CanInterface on zero Value"))
			}
			return in.tf.Bool(!v.RO)
		}
		r[valRecv+".Interface"] = func(in *Interp, fr *frame, args []Value) Value {
			v := in.rv(args[0])
			if !v.Valid {
				panic(in.reflectPanic("reflect: call of reflect.Value.Interface on zero Value"))
			}
			if v.RO {
				panic(in.reflectPanic("reflect.Value.Interface: cannot return value obtained from unexported field or method"))
			}
			if _, isIface := v.T.Underlying().(*types.Interface); isIface {
				return v.V
			}
			return Iface{T: v.T, V: in.copyVal(v.V)}
		}
		r[valRecv+".String"] = func(in *Interp, fr *frame, args []Value) Value {
			v := in.rv(args[0])
			if !v.Valid {
				return mkStr("<invalid Value>")
			}
			if s, ok := v.V.(Str); ok {
				return s
			}
			return mkStr("<" + in.rtypeString(v.T) + " Value>")
		}
		r[valRecv+".Int"] = func(in *Interp, fr *frame, args []Value) Value {
			v := in.rv(args[0])
			return in.tf.Conv(v.V.(*Term), 64, true)
		}
		r[valRecv+".Uint"] = func(in *Interp, fr *frame, args []Value) Value {
			v := in.rv(args[0])
			return in.tf.Conv(v.V.(*Term), 64, false)
		}
		r[valRecv+".Bool"] = func(in *Interp, fr *frame, args []Value) Value { return in.rv(args[0]).V }
		r[valRecv+".Float"] = func(in *Interp, fr *frame, args []Value) Value { return in.rv(args[0]).V }
		r[valRecv+".Len"] = func(in *Interp, fr *frame, args []Value) Value {
			v := in.rv(args[0])
			switch x := v.V.(type) {
			case Slice:
				return in.tf.Const(64, uint64(len(x.A)))
			case Array:
				return in.tf.Const(64, uint64(len(x)))
			case Str:
				return in.tf.Const(64, uint64(x.Len()))
			case *Map:
				if x == nil {
					return in.tf.Const(64, 0)
				}
				return in.tf.Const(64, uint64(x.N))
			}
			panic(in.reflectPanic("reflect: call of reflect.Value.Len on " + in.rtypeString(v.T) + " Value"))
		}
		r[valRecv+".Index"] = func(in *Interp, fr *frame, args []Value) Value {
			v := in.rv(args[0])
			i := int(in.concInt(args[1].(*Term), true))
			switch x := v.V.(type) {
			case Slice:
				if i < 0 || i >= len(x.A) {
					panic(in.reflectPanic("reflect: slice index out of range"))
				}
				et := v.T.Underlying().(*types.Slice).Elem()
				return RValue{T: in.canonType(et), V: x.A[i].V, Addr: &x.A[i], Valid: true, Lite: lite, RO: v.RO}
			case Array:
				if i < 0 || i >= len(x) {
					panic(in.reflectPanic("reflect: array index out of range"))
				}
				et := v.T.Underlying().(*types.Array).Elem()
				return RValue{T: in.canonType(et), V: x[i].V, Valid: true, Lite: lite, RO: v.RO}
			case Str:
				return RValue{T: types.Typ[types.Uint8], V: x.At(in.tf, i), Valid: true, Lite: lite}
			}
			panic(in.reflectPanic("reflect: call of reflect.Value.Index on " + in.rtypeString(v.T) + " Value"))
		}
		r[valRecv+".NumField"] = func(in *Interp, fr *frame, args []Value) Value {
			v := in.rv(args[0])
			if st, ok := v.T.Underlying().(*types.Struct); ok {
				return in.tf.Const(64, uint64(st.NumFields()))
			}
			panic(in.reflectPanic("reflect: call of reflect.Value.NumField on " + in.rtypeString(v.T) + " Value"))
		}
		r[valRecv+".Field"] = func(in *Interp, fr *frame, args []Value) Value {
			v := in.rv(args[0])
			i := int(in.concInt(args[1].(*Term), true))
			st, ok := v.T.Underlying().(*types.Struct)
			if !ok {
				panic(in.reflectPanic("reflect: call of reflect.Value.Field on " + in.rtypeString(v.T) + " Value"))
			}
			sv := v.V.(Struct)
			f := st.Field(i)
			var addr *Cell
			if v.Addr != nil {
				addr = &sv[i]
			}
			return RValue{T: in.canonType(f.Type()), V: sv[i].V, Addr: addr, Valid: true, Lite: lite, RO: v.RO || !f.Exported()}
		}
		r[valRecv+".Bytes"] = func(in *Interp, fr *frame, args []Value) Value {
			v := in.rv(args[0])
			if s, ok := v.V.(Slice); ok {
				return s
			}
			panic(in.reflectPanic("reflect: call of reflect.Value.Bytes on " + in.rtypeString(v.T) + " Value"))
		}
		r[valRecv+".Pointer"] = func(in *Interp, fr *frame, args []Value) Value {
			return in.ptrToken(in.rv(args[0]).V)
		}
		r[valRecv+".UnsafePointer"] = func(in *Interp, fr *frame, args []Value) Value {
			return UPtr{P: in.rv(args[0]).V}
		}
		r[valRecv+".IsZero"] = func(in *Interp, fr *frame, args []Value) Value {
			v := in.rv(args[0])
			return in.valEq(v.V, in.zero(v.T))
		}
		r[valRecv+".MapKeys"] = func(in *Interp, fr *frame, args []Value) Value {
			v := in.rv(args[0])
			m := v.V.(*Map)
			kt := in.canonType(v.T.Underlying().(*types.Map).Key())
			var cells []Cell
			if m != nil {
				for _, e := range m.Entries {
					if !e.Deleted {
						cells = append(cells, Cell{V: RValue{T: kt, V: e.K, Valid: true}, Epoch: in.epoch})
					}
				}
			}
			return Slice{A: cells}
		}
		r[valRecv+".MapIndex"] = func(in *Interp, fr *frame, args []Value) Value {
			v := in.rv(args[0])
			k := in.rv(args[1])
			m := v.V.(*Map)
			et := in.canonType(v.T.Underlying().(*types.Map).Elem())
			if e := in.mapFind(m, k.V); e != nil {
				return RValue{T: et, V: e.V.V, Valid: true}
			}
			return RValue{}
		}
	}
	r["reflect.Zero"] = func(in *Interp, fr *frame, args []Value) Value {
		t := in.rt(args[0]).T
		return RValue{T: t, V: in.zero(t), Valid: true}
	}
	r["reflect.New"] = func(in *Interp, fr *frame, args []Value) Value {
		t := in.rt(args[0]).T
		return RValue{T: in.canonType(types.NewPointer(t)), V: in.newCell(in.zero(t)), Valid: true}
	}
	r["reflect.PtrTo"] = func(in *Interp, fr *frame, args []Value) Value {
		return in.mkRType(types.NewPointer(in.rt(args[0]).T), false)
	}
	r["reflect.PointerTo"] = r["reflect.PtrTo"]
	r["reflect.Indirect"] = func(in *Interp, fr *frame, args []Value) Value {
		v := in.rv(args[0])
		if c, ok := v.V.(*Cell); ok && reflectKind(v.T) == kPointer {
			if c == nil {
				return RValue{}
			}
			return RValue{T: in.canonType(v.T.Underlying().(*types.Pointer).Elem()), V: c.V, Addr: c, Valid: true}
		}
		return v
	}
	r["reflect.Swapper"] = func(in *Interp, fr *frame, args []Value) Value {
		s := args[0].(Iface).V.(Slice)
		return &BoundIntrinsic{Name: "reflect.Swapper$1", Fn: func(in *Interp, fr *frame, a []Value) Value {
			i := int(in.concInt(a[0].(*Term), true))
			j := int(in.concInt(a[1].(*Term), true))
			vi, vj := s.A[i].V, s.A[j].V
			in.store(&s.A[i], vj)
			in.store(&s.A[j], vi)
			return nil
		}}
	}
	r["(reflect.Kind).String"] = func(in *Interp, fr *frame, args []Value) Value {
		names := []string{"invalid", "bool", "int", "int8", "int16", "int32", "int64", "uint", "uint8", "uint16", "uint32", "uint64", "uintptr",
			"float32", "float64", "complex64", "complex128", "array", "chan", "func", "interface", "map", "ptr", "slice", "string", "struct", "unsafe.Pointer"}
		k := int(in.concInt(args[0].(*Term), false))
		if k < len(names) {
			return mkStr(names[k])
		}
		return mkStr(fmt.Sprintf("kind%d", k))
	}
}

// ptrToken gives a stable fake address for a pointer-like value.
func (in *Interp) ptrToken(v Value) *Term {
	var key interface{}
	switch x := v.(type) {
	case *Cell:
		if x == nil {
			return in.tf.Const(64, 0)
		}
		key = x
	case Slice:
		if len(x.A) == 0 && cap(x.A) == 0 {
			return in.tf.Const(64, 0)
		}
		key = &x.A[:1][0]
	case *Map:
		if x == nil {
			return in.tf.Const(64, 0)
		}
		key = x
	case *Closure:
		if x == nil {
			return in.tf.Const(64, 0)
		}
		key = x
	default:
		key = fmt.Sprintf("%p", v)
	}
	if in.ptrTokens == nil {
		in.ptrTokens = map[interface{}]uint64{}
	}
	if t, ok := in.ptrTokens[key]; ok {
		return in.tf.Const(64, t)
	}
	t := uint64(0xc000000000 + 0x100*uint64(len(in.ptrTokens)+1))
	in.ptrTokens[key] = t
	return in.tf.Const(64, t)
}
