package main

// Worker construction, package initialisation, path execution.

import (
	"fmt"
	"go/build"
	"go/types"
	"os"
	"runtime/debug"
	"sort"
	"strings"
	"sync"
	"time"

	"golang.org/x/tools/go/ssa"
)

func buildSrcDirs() []string { return build.Default.SrcDirs() }

type RunConfig struct {
	Workers   int
	Unwind    int
	TimeoutMs int
	MaxSteps  int64
	Budget    time.Duration
	MaxPaths  int
	Concrete  map[string]interface{}
	Trace     bool
	Solver    string
	Profile   bool
	Params    map[string]int
	Seed      int64
	SampleN   int
	CrossN    int // number of path sessions to record for solver cross-checking
}

func NewInterp(env *Env, cfg *RunConfig) (*Interp, error) {
	in := &Interp{
		prog: env.prog, env: env, tf: NewTF(),
		globals:  map[*ssa.Global]*Cell{},
		typeKeys: map[types.Type]string{}, fnInfos: map[*ssa.Function]*fnInfo{}, methodCache: map[methodKey]*ssa.Function{},
		implCache: map[[2]types.Type]bool{}, constCache: map[*ssa.Const]Value{}, rtStrCache: map[types.Type]string{},
		intrCache: map[*ssa.Function]intrinsicFn{}, intrHit: map[string]int{},
		pcIndex: map[pcEntry]int{}, rfuncs: map[string]*Cell{},
		protoByName: map[string]types.Type{}, protoByType: map[types.Type]string{},
		unwind: cfg.Unwind, maxSteps: cfg.MaxSteps, params: cfg.Params,
	}
	if cfg.Profile {
		in.fnSteps = map[*ssa.Function]int64{}
	}
	in.registerIntrinsics()
	// globals
	for _, p := range env.prog.AllPackages() {
		for _, m := range p.Members {
			if g, ok := m.(*ssa.Global); ok {
				in.globals[g] = &Cell{V: in.zero(deref(g.Type()))}
			}
		}
	}
	// init
	in.inInit = true
	if err := in.runInit(); err != nil {
		return nil, err
	}
	in.inInit = false
	in.tf.Reset()
	return in, nil
}

func (in *Interp) runInit() (err error) {
	defer func() {
		if r := recover(); r != nil {
			switch e := r.(type) {
			case *engineAbort:
				err = fmt.Errorf("init aborted: %v", e)
			case *targetPanic:
				err = fmt.Errorf("init panicked: %s\n%s", in.panicText(e), e.Stack)
			case *engineCrash:
				err = fmt.Errorf("init crashed: %v\n%s\n%s", e.V, e.Target, trimStack(e.GoStack))
			default:
				err = fmt.Errorf("init crashed: %v\n%s", r, debug.Stack())
			}
		}
	}()
	initFn := in.env.harness.Func("init")
	in.call(nil, nil, initFn, nil)
	return nil
}

func (in *Interp) panicText(tp *targetPanic) string {
	switch v := tp.V.(type) {
	case Iface:
		if s, ok := v.V.(Str); ok {
			return fmt.Sprintf("%v(%s)", v.T, s.String())
		}
		if v.T != nil {
			// try error / Stringer
			return fmt.Sprintf("%v %v", v.T, in.describe(v.V, 2))
		}
		return "nil"
	}
	return fmt.Sprintf("%v", tp.V)
}

func (in *Interp) describe(v Value, depth int) string {
	if depth == 0 {
		return "…"
	}
	switch v := v.(type) {
	case *Term:
		return v.String()
	case Str:
		return v.String()
	case *Cell:
		if v == nil {
			return "nil"
		}
		return "&" + in.describe(v.V, depth-1)
	case Struct:
		s := "{"
		for i := range v {
			if i > 0 {
				s += ", "
			}
			s += in.describe(v[i].V, depth-1)
		}
		return s + "}"
	case Iface:
		if v.T == nil {
			return "nil"
		}
		return fmt.Sprintf("%v(%s)", v.T, in.describe(v.V, depth-1))
	}
	return fmt.Sprintf("%T", v)
}

// PathResult summarises one executed path.
type PathResult struct {
	Abort *engineAbort
	Panic *targetPanic
}

// runPath executes the harness on one decision prefix.
func (in *Interp) runPath(ex *Explorer, fn *ssa.Function, it workItem, cfg *RunConfig) {
	ps := newPathState(ex, it)
	ps.concrete = cfg.Concrete
	in.ps = ps
	in.epoch = 1
	in.steps = 0
	in.lockDepth = 0
	in.goq = nil
	in.inGo = 0
	in.tf.Reset()
	in.ptrTokens = nil
	recording := false
	if cfg.CrossN > 0 && ex.wantCross(cfg.CrossN) {
		recording = true
	}
	in.solver.Push()
	if recording {
		in.solver.StartRecording()
		in.solver.rec.WriteString("(push 1)\n")
	}
	var abort *engineAbort
	var tpanic *targetPanic
	var crash interface{}
	var crashStack []byte
	func() {
		defer func() {
			if r := recover(); r != nil {
				switch e := r.(type) {
				case *engineAbort:
					abort = e
					if e.Kind == "unsupported" || e.Kind == "internal" || e.Kind == "unwind" {
						e.Msg += "\n" + in.callStack(in.curFrame)
					}
				case *targetPanic:
					tpanic = e
				case *engineCrash:
					crash = e.V
					crashStack = []byte(e.Target + "\n" + trimStack(e.GoStack))
				default:
					crash = r
					crashStack = debug.Stack()
				}
			}
		}()
		// the harness argument: *sym.V
		vt := fn.Signature.Params().At(0).Type()
		v := in.newCell(in.zero(deref(vt)))
		in.call(nil, nil, fn, []Value{v})
		// goroutines nobody waited for still run
		in.runPendingGo(nil)
	}()
	if tpanic != nil && abort == nil && crash == nil {
		// unrecovered panic of the program under test: a violation of nopanic
		func() {
			defer func() {
				if r := recover(); r != nil {
					if e, ok := r.(*engineAbort); ok {
						abort = e
					} else {
						panic(r)
					}
				}
			}()
			ps.ensureModel(in)
			ex.addViolation(in, ps, "nopanic", "unrecovered panic: "+in.panicText(tpanic)+"\n"+tpanic.Stack, ps.model)
		}()
	}
	if abort == nil && crash == nil && tpanic == nil && ex.wantSample(ps) {
		func() {
			defer func() {
				if r := recover(); r != nil {
					if _, ok := r.(*engineAbort); !ok {
						panic(r)
					}
				}
			}()
			ps.ensureModel(in)
			vs := valSample{Inputs: ps.witness(in, ps.model), Obs: ps.evalObs(in, ps.model)}
			ex.mu.Lock()
			ex.valSamples = append(ex.valSamples, vs)
			ex.mu.Unlock()
		}()
	}
	in.solver.Pop()
	if recording {
		txt, ans := in.solver.StopRecording()
		if len(ans) > 0 {
			ex.mu.Lock()
			ex.crossSessions = append(ex.crossSessions, crossSession{Script: txt, Answers: ans})
			ex.mu.Unlock()
		}
	}
	in.rollback()
	in.ps = nil
	in.epoch = 0
	in.curFrame = nil

	ex.mu.Lock()
	ex.paths++
	ex.steps += in.steps
	for id, n := range ps.reached {
		ex.reached[id] += n
	}
	for _, w := range ps.sharedWrites {
		ex.sharedWrites[w]++
	}
	if len(ex.obsSample) < 3 && len(ps.obs) > 0 {
		var o []string
		for _, r := range ps.obs {
			o = append(o, r.Name+"="+r.Val.String())
		}
		ex.obsSample = append(ex.obsSample, o)
	}
	if len(ex.samples) < 5 && abort == nil && crash == nil {
		s := map[string]interface{}{"decisions": len(ps.trace), "forks": ps.forks, "steps": in.steps}
		inputs := []string{}
		for _, r := range ps.inputs {
			switch r.Kind {
			case "choice":
				inputs = append(inputs, fmt.Sprintf("%s=%d", r.Name, r.Val))
			case "str":
				inputs = append(inputs, fmt.Sprintf("%s=<%d symbolic bytes>", r.Name, len(r.Terms)))
			default:
				inputs = append(inputs, fmt.Sprintf("%s=<symbolic %d-bit>", r.Name, r.W))
			}
		}
		s["inputs"] = inputs
		s["asserts_reached"] = sortedKeys(ps.reached)
		ex.samples = append(ex.samples, s)
	}
	ex.mu.Unlock()
	if crash != nil {
		ex.addInconclusive(Inconclusive{Kind: "engine-crash", Msg: fmt.Sprintf("%v\n%s", crash, crashStack), Path: ps.trace})
		ex.mu.Lock()
		ex.pathsAborted++
		ex.mu.Unlock()
	}
	if abort != nil {
		ex.mu.Lock()
		ex.pathsAborted++
		ex.mu.Unlock()
		switch abort.Kind {
		case "infeasible":
			ex.mu.Lock()
			ex.inconcKinds["(infeasible-assume, not counted)"]++
			ex.mu.Unlock()
		default:
			ex.addInconclusive(Inconclusive{Kind: abort.Kind, Msg: abort.Msg, Path: append([]int64(nil), ps.trace...)})
		}
	}
}

// Explore runs harness fn to completion (or budget) with cfg.Workers workers.
func Explore(env *Env, property, harness string, cfg *RunConfig) (*Explorer, *RunStats, error) {
	fn := env.harness.Func(harness)
	if fn == nil {
		return nil, nil, fmt.Errorf("no harness function %s", harness)
	}
	ex := NewExplorer(property, harness)
	if cfg.Budget > 0 {
		ex.deadline = time.Now().Add(cfg.Budget)
	}
	ex.maxPaths = cfg.MaxPaths
	ex.sampleN = cfg.SampleN
	ex.seed = cfg.Seed
	stats := &RunStats{FnSteps: map[string]int64{}, Intrinsics: map[string]int{}}
	var wg sync.WaitGroup
	var firstErr error
	var emu sync.Mutex
	nw := cfg.Workers
	if cfg.Concrete != nil {
		nw = 1
	}
	for w := 0; w < nw; w++ {
		wg.Add(1)
		go func(w int) {
			defer wg.Done()
			in, err := NewInterp(env, cfg)
			if err != nil {
				emu.Lock()
				if firstErr == nil {
					firstErr = err
				}
				emu.Unlock()
				ex.mu.Lock()
				ex.stopped = true
				ex.mu.Unlock()
				ex.cond.Broadcast()
				return
			}
			in.trace = cfg.Trace
			s, err := NewSolver(cfg.Solver, cfg.TimeoutMs)
			if err != nil {
				emu.Lock()
				firstErr = err
				emu.Unlock()
				return
			}
			in.solver = s
			defer s.Close()
			for {
				it, ok := ex.pop()
				if !ok {
					break
				}
				in.runPath(ex, fn, it, cfg)
				ex.done()
			}
			emu.Lock()
			stats.Queries += s.NQueries
			stats.Sat += s.NSat
			stats.Unsat += s.NUnsat
			stats.Unknown += s.NUnknown
			stats.SolverErrors += s.Errors
			stats.SolveTime += s.SolveTime
			for f, n := range in.fnSteps {
				stats.FnSteps[f.String()] += n
			}
			for k, n := range in.intrHit {
				stats.Intrinsics[k] += n
			}
			emu.Unlock()
		}(w)
	}
	wg.Wait()
	if firstErr != nil {
		return ex, stats, firstErr
	}
	return ex, stats, nil
}

type RunStats struct {
	Queries, Sat, Unsat, Unknown, SolverErrors int
	SolveTime  time.Duration
	FnSteps    map[string]int64
	Intrinsics map[string]int
}

func topN(m map[string]int64, n int) []string {
	type kv struct {
		k string
		v int64
	}
	var l []kv
	for k, v := range m {
		l = append(l, kv{k, v})
	}
	sort.Slice(l, func(i, j int) bool { return l[i].v > l[j].v })
	var r []string
	for i := 0; i < len(l) && i < n; i++ {
		r = append(r, fmt.Sprintf("%s=%d", l[i].k, l[i].v))
	}
	return r
}

var _ = os.Stderr

func trimStack(s string) string {
	lines := strings.Split(s, "\n")
	if len(lines) > 40 {
		lines = lines[:40]
	}
	return strings.Join(lines, "\n")
}

// wantSample decides whether a completed path contributes a translator-validation sample.
func (ex *Explorer) wantSample(ps *pathState) bool {
	ex.mu.Lock()
	defer ex.mu.Unlock()
	if len(ex.valSamples) >= ex.sampleN {
		return false
	}
	if len(ex.valSamples) < ex.sampleN/2 {
		return true
	}
	// pseudo-random thinning driven by the seed and the path's decisions
	h := uint64(ex.seed)*0x9e3779b97f4a7c15 + 12345
	for _, d := range ps.trace {
		h = (h ^ uint64(d)) * 0x100000001b3
	}
	return h%4 == 0
}

type crossSession struct {
	Script  string
	Answers []string
}

func (ex *Explorer) wantCross(n int) bool {
	ex.mu.Lock()
	defer ex.mu.Unlock()
	if ex.crossWanted >= n {
		return false
	}
	// spread over the run: every 37th path
	ex.crossSeen++
	if ex.crossSeen%37 != 1 {
		return false
	}
	ex.crossWanted++
	return true
}
