package main

// Program loading (go/packages -> go/ssa from /repo's current working tree)
// and the shared, read-only environment used by all workers.

import (
	"fmt"
	"go/types"
	"os"
	"sort"
	"strings"
	"sync"
	"time"

	"golang.org/x/tools/go/packages"
	"golang.org/x/tools/go/ssa"
	"golang.org/x/tools/go/ssa/ssautil"
)

type initMode int

const (
	initNormal initMode = iota
	initBestEffort
	initSkip
)

type Env struct {
	prog     *ssa.Program
	pkgs     []*ssa.Package
	harness  *ssa.Package
	allPkgs  map[string]*ssa.Package
	loadTime time.Duration

	runtimeErrorString types.Type
	runtimePlainError  types.Type
	reflectRtypePtr    types.Type // *reflect.rtype
	reflectValue       types.Type
	liteRtype          types.Type // internal/reflectlite.rtype
	liteValue          types.Type

	bottomFrames []SynthFrame

	mu        sync.Mutex
	initSkips map[string]int
}

func (e *Env) noteInitSkip(fn *ssa.Function, instr ssa.Instruction, r interface{}) {
	e.mu.Lock()
	defer e.mu.Unlock()
	if e.initSkips == nil {
		e.initSkips = map[string]int{}
	}
	msg := ""
	switch x := r.(type) {
	case *engineAbort:
		msg = x.Error()
	case *targetPanic:
		msg = "target panic"
	}
	e.initSkips[fn.Pkg.Pkg.Path()+": "+msg]++
}

// LoadEnv loads the harness module (which pulls in /repo through its replace
// directive) and builds SSA for the whole program.
func LoadEnv(harnessDir string, patterns []string) (*Env, error) {
	t0 := time.Now()
	cfg := &packages.Config{
		Mode:  packages.LoadAllSyntax,
		Dir:   harnessDir,
		Env:   append(os.Environ(), "GOFLAGS=-mod=mod", "GOPROXY=off", "GOSUMDB=off", "GOTOOLCHAIN=local", "CGO_ENABLED=0"),
		Tests: false,
	}
	initial, err := packages.Load(cfg, patterns...)
	if err != nil {
		return nil, err
	}
	nerr := 0
	packages.Visit(initial, nil, func(p *packages.Package) {
		for _, e := range p.Errors {
			fmt.Fprintf(os.Stderr, "load error: %s: %v\n", p.PkgPath, e)
			nerr++
		}
	})
	if nerr > 0 {
		return nil, fmt.Errorf("%d package load errors", nerr)
	}
	prog, pkgs := ssautil.AllPackages(initial, ssa.InstantiateGenerics|ssa.SanityCheckFunctions&0)
	prog.Build()
	env := &Env{prog: prog, pkgs: pkgs, allPkgs: map[string]*ssa.Package{}}
	for _, p := range prog.AllPackages() {
		env.allPkgs[p.Pkg.Path()] = p
	}
	for _, p := range pkgs {
		if p != nil && p.Pkg.Path() == "verifh" {
			env.harness = p
		}
	}
	if rt := env.allPkgs["runtime"]; rt != nil {
		if o := rt.Pkg.Scope().Lookup("errorString"); o != nil {
			env.runtimeErrorString = o.Type()
		}
		if o := rt.Pkg.Scope().Lookup("plainError"); o != nil {
			env.runtimePlainError = o.Type()
		}
	}
	if rp := env.allPkgs["reflect"]; rp != nil {
		env.reflectRtypePtr = types.NewPointer(rp.Pkg.Scope().Lookup("rtype").Type())
		env.reflectValue = rp.Pkg.Scope().Lookup("Value").Type()
	}
	if rp := env.allPkgs["internal/reflectlite"]; rp != nil {
		env.liteRtype = rp.Pkg.Scope().Lookup("rtype").Type()
		env.liteValue = rp.Pkg.Scope().Lookup("Value").Type()
	}
	env.loadTime = time.Since(t0)
	return env, nil
}

// Packages whose init runs normally from source.
var initNormalPrefixes = []string{
	"github.com/cockroachdb/", "verifh", "github.com/pkg/errors", "github.com/gogo/status",
	"github.com/gogo/googleapis/", "github.com/gogo/protobuf/types",
}

var initNormalExact = map[string]bool{
	"errors": true, "internal/oserror": true, "io": true, "io/fs": true, "context": true, "fmt": true,
	"strconv": true, "unicode": true, "unicode/utf8": true, "strings": true, "bytes": true, "sort": true,
	"slices": true, "path": true, "path/filepath": true, "math/bits": true, "internal/itoa": true,
	"internal/stringslite": true, "cmp": true, "iter": true, "maps": true, "bufio": true, "math": true,
	"internal/fmtsort": true, "unicode/utf16": true,
	"google.golang.org/grpc/codes": true,
}

var initBestEffortExact = map[string]bool{
	"os": true, "syscall": true, "net": true, "time": true, "github.com/getsentry/sentry-go": true,
	"github.com/gogo/protobuf/proto": true, "github.com/golang/protobuf/proto": true,
	"google.golang.org/grpc/status": true, "google.golang.org/grpc/internal/status": true,
	"google.golang.org/genproto/googleapis/rpc/status": true,
	"github.com/kr/pretty": true, "log": true,
}

func (in *Interp) initPolicy(path string) initMode {
	if initNormalExact[path] {
		return initNormal
	}
	for _, p := range initNormalPrefixes {
		if strings.HasPrefix(path, p) {
			return initNormal
		}
	}
	if initBestEffortExact[path] {
		return initBestEffort
	}
	return initSkip
}

func (e *Env) initSkipSummary() []string {
	e.mu.Lock()
	defer e.mu.Unlock()
	var r []string
	for k, n := range e.initSkips {
		r = append(r, fmt.Sprintf("%s (x%d)", k, n))
	}
	sort.Strings(r)
	return r
}
