package main

// Leaf intrinsics: functions that are not executed from source (runtime,
// sync, atomics, assembly-backed byte algorithms, unsafe casts).

import (
	"fmt"
	"unsafe"
	"go/types"
	"strings"

	"golang.org/x/tools/go/ssa"
)

func (in *Interp) registerIntrinsics() {
	in.intrinsics = map[string]intrinsicFn{}
	r := in.intrinsics
	nop := func(in *Interp, fr *frame, args []Value) Value { return nil }

	// --- sync
	lock := func(in *Interp, fr *frame, args []Value) Value { in.lockDepth++; return nil }
	unlock := func(in *Interp, fr *frame, args []Value) Value {
		if in.lockDepth > 0 {
			in.lockDepth--
		}
		return nil
	}
	r["(*sync.Mutex).Lock"] = lock
	r["(*sync.Mutex).Unlock"] = unlock
	r["(*sync.Mutex).TryLock"] = func(in *Interp, fr *frame, args []Value) Value { in.lockDepth++; return tTrue }
	r["(*sync.RWMutex).Lock"] = lock
	r["(*sync.RWMutex).Unlock"] = unlock
	r["(*sync.RWMutex).RLock"] = lock
	r["(*sync.RWMutex).RUnlock"] = unlock
	r["(*sync.Pool).Get"] = func(in *Interp, fr *frame, args []Value) Value {
		p := args[0].(*Cell)
		st := p.V.(Struct)
		// field New is the last field
		newFn := st[len(st)-1].V
		if isNilFunc(newFn) {
			return Iface{}
		}
		return in.call(fr, fr.site, newFn, nil)
	}
	r["(*sync.Pool).Put"] = nop
	r["(*sync.Once).Do"] = func(in *Interp, fr *frame, args []Value) Value {
		o := args[0].(*Cell)
		st := o.V.(Struct)
		// first field: done (atomic.Uint32 struct or uint32)
		doneCell := &st[0]
		isDone := false
		switch d := doneCell.V.(type) {
		case *Term:
			isDone = d.C != 0
		case Struct:
			// atomic.Uint32{_ noCopy; v uint32}
			isDone = d[len(d)-1].V.(*Term).C != 0
		}
		if isDone {
			return nil
		}
		in.lockDepth++
		in.call(fr, fr.site, args[1], nil)
		in.lockDepth--
		switch d := doneCell.V.(type) {
		case *Term:
			in.storeSync(doneCell, in.tf.Const(d.W, 1))
		case Struct:
			in.storeSync(&d[len(d)-1], in.tf.Const(32, 1))
		}
		return nil
	}
	r["(*sync.WaitGroup).Add"] = nop
	r["(*sync.WaitGroup).Done"] = nop
	r["(*sync.WaitGroup).Wait"] = func(in *Interp, fr *frame, args []Value) Value {
		in.runPendingGo(fr)
		return nil
	}

	// --- sync/atomic (plain functions; typed wrappers run from source)
	for _, ty := range []string{"Int32", "Int64", "Uint32", "Uint64", "Uintptr", "Pointer"} {
		ty := ty
		r["sync/atomic.Load"+ty] = func(in *Interp, fr *frame, args []Value) Value { return in.load(in.asPtr(args[0])) }
		r["sync/atomic.Store"+ty] = func(in *Interp, fr *frame, args []Value) Value {
			in.storeSync(in.asPtr(args[0]), args[1])
			return nil
		}
		r["sync/atomic.Swap"+ty] = func(in *Interp, fr *frame, args []Value) Value {
			c := in.asPtr(args[0])
			old := in.load(c)
			in.storeSync(c, args[1])
			return old
		}
		r["sync/atomic.CompareAndSwap"+ty] = func(in *Interp, fr *frame, args []Value) Value {
			c := in.asPtr(args[0])
			if in.branch(in.valEq(in.load(c), args[1])) {
				in.storeSync(c, args[2])
				return tTrue
			}
			return tFalse
		}
		if ty != "Pointer" {
			r["sync/atomic.Add"+ty] = func(in *Interp, fr *frame, args []Value) Value {
				c := in.asPtr(args[0])
				nv := in.tf.Bin(OAdd, in.load(c).(*Term), args[1].(*Term))
				in.storeSync(c, nv)
				return nv
			}
		}
	}
	r["(*sync/atomic.Pointer).Load"] = func(in *Interp, fr *frame, args []Value) Value {
		st := args[0].(*Cell).V.(Struct)
		v := st[len(st)-1].V
		if u, ok := v.(UPtr); ok {
			if u.P == nil {
				return (*Cell)(nil)
			}
			return u.P
		}
		return v
	}
	r["(*sync/atomic.Pointer).Store"] = func(in *Interp, fr *frame, args []Value) Value {
		st := args[0].(*Cell).V.(Struct)
		in.storeSync(&st[len(st)-1], UPtr{P: args[1]})
		return nil
	}
	r["(*sync/atomic.Pointer).CompareAndSwap"] = func(in *Interp, fr *frame, args []Value) Value {
		st := args[0].(*Cell).V.(Struct)
		cur := st[len(st)-1].V.(UPtr).P
		var curp *Cell
		if cur != nil {
			curp = cur.(*Cell)
		}
		if curp == args[1].(*Cell) {
			in.storeSync(&st[len(st)-1], UPtr{P: args[2]})
			return tTrue
		}
		return tFalse
	}
	r["(*sync/atomic.Value).Load"] = func(in *Interp, fr *frame, args []Value) Value {
		st := args[0].(*Cell).V.(Struct)
		if v, ok := st[0].V.(Iface); ok {
			return v
		}
		return Iface{}
	}
	r["(*sync/atomic.Value).Store"] = func(in *Interp, fr *frame, args []Value) Value {
		st := args[0].(*Cell).V.(Struct)
		in.storeSync(&st[0], args[1])
		return nil
	}

	// --- runtime
	r["runtime.SetFinalizer"] = nop
	r["runtime.KeepAlive"] = nop
	r["runtime.Gosched"] = nop
	r["runtime.GC"] = nop
	r["runtime.GOMAXPROCS"] = func(in *Interp, fr *frame, args []Value) Value { return in.tf.Const(64, 1) }
	r["runtime.NumGoroutine"] = func(in *Interp, fr *frame, args []Value) Value { return in.tf.Const(64, 1) }
	in.registerStackIntrinsics()

	// --- internal/abi, unsafe helpers
	r["internal/abi.NoEscape"] = func(in *Interp, fr *frame, args []Value) Value { return args[0] }
	r["internal/abi.Escape"] = func(in *Interp, fr *frame, args []Value) Value { return args[0] }
	r["internal/bytealg.MakeNoZero"] = func(in *Interp, fr *frame, args []Value) Value {
		n := int(in.concInt(args[0].(*Term), true))
		cells := in.newCells(n)
		z := in.tf.Const(8, 0)
		for i := range cells {
			cells[i].V = z
		}
		return Slice{A: cells}
	}
	r["internal/godebug.New"] = func(in *Interp, fr *frame, args []Value) Value { return (*Cell)(nil) }
	r["(*internal/godebug.Setting).Value"] = func(in *Interp, fr *frame, args []Value) Value { return mkStr("") }
	r["(*internal/godebug.Setting).IncNonDefault"] = nop
	r["internal/race.Acquire"] = nop
	r["internal/race.Release"] = nop
	r["internal/race.ReleaseMerge"] = nop
	r["internal/race.Disable"] = nop
	r["internal/race.Enable"] = nop
	r["internal/race.Read"] = nop
	r["internal/race.Write"] = nop
	r["internal/race.ReadRange"] = nop
	r["internal/race.WriteRange"] = nop

	// --- byte algorithms (assembly in the real runtime)
	r["internal/bytealg.IndexByteString"] = func(in *Interp, fr *frame, args []Value) Value {
		return in.tf.Const(64, uint64(int64(in.indexByte(args[0].(Str).Bytes(in.tf), args[1].(*Term)))))
	}
	r["internal/bytealg.IndexByte"] = func(in *Interp, fr *frame, args []Value) Value {
		return in.tf.Const(64, uint64(int64(in.indexByte(sliceBytes(args[0].(Slice)), args[1].(*Term)))))
	}
	r["internal/bytealg.CountString"] = func(in *Interp, fr *frame, args []Value) Value {
		return in.tf.Const(64, uint64(in.countByte(args[0].(Str).Bytes(in.tf), args[1].(*Term))))
	}
	r["internal/bytealg.Count"] = func(in *Interp, fr *frame, args []Value) Value {
		return in.tf.Const(64, uint64(in.countByte(sliceBytes(args[0].(Slice)), args[1].(*Term))))
	}
	r["internal/bytealg.IndexString"] = func(in *Interp, fr *frame, args []Value) Value {
		return in.tf.Const(64, uint64(int64(in.indexSub(args[0].(Str).Bytes(in.tf), args[1].(Str).Bytes(in.tf)))))
	}
	r["internal/bytealg.Index"] = func(in *Interp, fr *frame, args []Value) Value {
		return in.tf.Const(64, uint64(int64(in.indexSub(sliceBytes(args[0].(Slice)), sliceBytes(args[1].(Slice))))))
	}
	r["strings.Index"] = r["internal/bytealg.IndexString"]
	r["bytes.Index"] = r["internal/bytealg.Index"]
	r["strings.IndexByte"] = r["internal/bytealg.IndexByteString"]
	r["bytes.IndexByte"] = r["internal/bytealg.IndexByte"]
	r["internal/stringslite.Index"] = r["internal/bytealg.IndexString"]
	r["internal/stringslite.IndexByte"] = r["internal/bytealg.IndexByteString"]
	r["strings.LastIndex"] = func(in *Interp, fr *frame, args []Value) Value {
		return in.tf.Const(64, uint64(int64(in.lastIndexSub(args[0].(Str).Bytes(in.tf), args[1].(Str).Bytes(in.tf)))))
	}
	r["strings.LastIndexByte"] = func(in *Interp, fr *frame, args []Value) Value {
		return in.tf.Const(64, uint64(int64(in.lastIndexSub(args[0].(Str).Bytes(in.tf), []*Term{args[1].(*Term)}))))
	}
	r["bytes.LastIndexByte"] = func(in *Interp, fr *frame, args []Value) Value {
		return in.tf.Const(64, uint64(int64(in.lastIndexSub(sliceBytes(args[0].(Slice)), []*Term{args[1].(*Term)}))))
	}
	r["bytes.LastIndex"] = func(in *Interp, fr *frame, args []Value) Value {
		return in.tf.Const(64, uint64(int64(in.lastIndexSub(sliceBytes(args[0].(Slice)), sliceBytes(args[1].(Slice))))))
	}
	r["internal/bytealg.Equal"] = func(in *Interp, fr *frame, args []Value) Value {
		return strEq(in.tf, strFromTerms(sliceBytes(args[0].(Slice))), strFromTerms(sliceBytes(args[1].(Slice))))
	}
	r["bytes.Equal"] = r["internal/bytealg.Equal"]
	cmp := func(in *Interp, a, b Str) Value {
		if in.branch(strEq(in.tf, a, b)) {
			return in.tf.Const(64, 0)
		}
		if in.branch(strLess(in.tf, a, b)) {
			return in.tf.Const(64, ^uint64(0))
		}
		return in.tf.Const(64, 1)
	}
	r["internal/bytealg.Compare"] = func(in *Interp, fr *frame, args []Value) Value {
		return cmp(in, strFromTerms(sliceBytes(args[0].(Slice))), strFromTerms(sliceBytes(args[1].(Slice))))
	}
	r["bytes.Compare"] = r["internal/bytealg.Compare"]
	r["internal/bytealg.CompareString"] = func(in *Interp, fr *frame, args []Value) Value {
		return cmp(in, args[0].(Str), args[1].(Str))
	}
	r["strings.Compare"] = r["internal/bytealg.CompareString"]
	r["internal/stringslite.Clone"] = func(in *Interp, fr *frame, args []Value) Value { return args[0] }
	r["strings.Clone"] = func(in *Interp, fr *frame, args []Value) Value { return args[0] }

	// --- os / environment (no real I/O)
	r["os.Getenv"] = func(in *Interp, fr *frame, args []Value) Value { return mkStr("") }
	r["os.LookupEnv"] = func(in *Interp, fr *frame, args []Value) Value { return Tuple{mkStr(""), tFalse} }
	r["syscall.Getenv"] = func(in *Interp, fr *frame, args []Value) Value { return Tuple{mkStr(""), tFalse} }
	r["os.Getwd"] = func(in *Interp, fr *frame, args []Value) Value { return Tuple{mkStr("/"), Iface{}} }
	r["os.Hostname"] = func(in *Interp, fr *frame, args []Value) Value { return Tuple{mkStr("host"), Iface{}} }
	r["log.Printf"] = nop
	r["log.Println"] = nop
	r["log.Print"] = nop
	r["(*os.File).Write"] = func(in *Interp, fr *frame, args []Value) Value {
		return Tuple{in.tf.Const(64, uint64(len(args[1].(Slice).A))), Iface{}}
	}
	r["(*os.File).WriteString"] = func(in *Interp, fr *frame, args []Value) Value {
		return Tuple{in.tf.Const(64, uint64(args[1].(Str).Len())), Iface{}}
	}

	in.registerStrconvIntrinsics()
	in.registerReflectIntrinsics()
	in.registerRegexpIntrinsics()
	in.registerProtoIntrinsics()
	in.registerSymIntrinsics()
	in.registerFmtIntrinsics()
	in.registerWireIntrinsics()
}

// storeSync is a store performed by a synchronisation primitive (exempt from
// the shared-write monitor).
func (in *Interp) storeSync(c *Cell, v Value) {
	in.lockDepth++
	in.store(c, v)
	in.lockDepth--
}

func sliceBytes(s Slice) []*Term {
	r := make([]*Term, len(s.A))
	for i := range s.A {
		r[i] = s.A[i].V.(*Term)
	}
	return r
}

func (in *Interp) indexByte(b []*Term, c *Term) int {
	for i, x := range b {
		if in.branch(in.tf.Eq(x, c)) {
			return i
		}
	}
	return -1
}

func (in *Interp) countByte(b []*Term, c *Term) int {
	n := 0
	for _, x := range b {
		if in.branch(in.tf.Eq(x, c)) {
			n++
		}
	}
	return n
}

func (in *Interp) eqAt(s []*Term, i int, sep []*Term) *Term {
	r := tTrue
	for j := range sep {
		r = in.tf.And(r, in.tf.Eq(s[i+j], sep[j]))
		if r.IsFalse() {
			break
		}
	}
	return r
}

func (in *Interp) indexSub(s, sep []*Term) int {
	for i := 0; i+len(sep) <= len(s); i++ {
		if in.branch(in.eqAt(s, i, sep)) {
			return i
		}
	}
	return -1
}

func (in *Interp) lastIndexSub(s, sep []*Term) int {
	for i := len(s) - len(sep); i >= 0; i-- {
		if in.branch(in.eqAt(s, i, sep)) {
			return i
		}
	}
	return -1
}

// unsafeBuiltin handles unsafe.String/StringData/Slice/SliceData builtins.
func (in *Interp) unsafeBuiltin(name string, fn *ssa.Builtin, args []Value) (Value, bool) {
	switch name {
	case "SliceData":
		return UPtr{P: args[0]}, true
	case "StringData":
		return UPtr{P: args[0]}, true
	case "String":
		n := int(in.concInt(args[1].(*Term), true))
		switch p := in.unwrapUPtr(args[0]).(type) {
		case Slice:
			return strFromTerms(sliceBytes(Slice{A: p.A[:n]})), true
		case Str:
			return p.Slice(0, n), true
		case *Cell:
			if p == nil && n == 0 {
				return Str{}, true
			}
			if p != nil {
				// pointer to an element of a []Cell backing array: cells are contiguous
				return strFromTerms(sliceBytes(Slice{A: unsafe.Slice(p, n)})), true
			}
		case nil:
			if n == 0 {
				return Str{}, true
			}
		}
	case "Slice":
		n := int(in.concInt(args[1].(*Term), true))
		switch p := in.unwrapUPtr(args[0]).(type) {
		case Str:
			cells := in.newCells(n)
			for i := range cells {
				cells[i].V = p.At(in.tf, i)
			}
			return Slice{A: cells}, true
		case Slice:
			return Slice{A: p.A[:n]}, true
		case nil:
			if n == 0 {
				return Slice{Nil: true}, true
			}
		}
	}
	return nil, false
}

func (in *Interp) unwrapUPtr(v Value) Value {
	if u, ok := v.(UPtr); ok {
		return u.P
	}
	return v
}

func typeOfPtrElem(t types.Type) types.Type {
	if p, ok := t.Underlying().(*types.Pointer); ok {
		return p.Elem()
	}
	return nil
}

func fnName(fn *ssa.Function) string {
	s := fn.String()
	if o := fn.Origin(); o != nil {
		s = o.String()
	}
	return s
}

var _ = fmt.Sprintf
var _ = strings.Contains

// symDecimal renders a symbolic integer in base 10: forks on sign and on the
// number of digits (bounded by the width), digits are bit-vector terms.
func (in *Interp) symDecimal(t *Term, signed bool) Str {
	f := in.tf
	// narrow through extensions
	for (t.Op == OZext && !signed) || (t.Op == OSext && signed) || (t.Op == OZext && signed) {
		if t.Op == OZext && signed {
			// zero-extended value is non-negative
			signed = false
		}
		t = t.A
	}
	if t.IsConst() {
		if signed {
			return mkStr(fmt.Sprintf("%d", t.SVal()))
		}
		return mkStr(fmt.Sprintf("%d", t.C))
	}
	var out []*Term
	u := t
	if signed {
		if in.branch(f.Cmp(OSlt, t, f.Const(t.W, 0))) {
			out = append(out, f.Const(8, '-'))
			u = f.Neg(t)
		}
	}
	maxDigits := map[uint8]int{8: 3, 16: 5, 32: 10, 64: 20}[u.W]
	k := maxDigits
	pow := uint64(1)
	for d := 1; d < maxDigits; d++ {
		pow *= 10
		if in.branch(f.Cmp(OUlt, u, f.Const(u.W, pow))) {
			k = d
			break
		}
	}
	// digits, most significant first
	p := uint64(1)
	pows := make([]uint64, k)
	for i := 0; i < k; i++ {
		pows[k-1-i] = p
		p *= 10
	}
	for i := 0; i < k; i++ {
		q := u
		if pows[i] != 1 {
			q = f.Bin(OUDiv, u, f.Const(u.W, pows[i]))
		}
		dig := f.Bin(OURem, q, f.Const(u.W, 10))
		out = append(out, f.Bin(OAdd, f.Conv(dig, 8, false), f.Const(8, '0')))
	}
	return strFromTerms(out)
}

func (in *Interp) registerStrconvIntrinsics() {
	r := in.intrinsics
	fallback := func(in *Interp, fr *frame, args []Value) Value {
		return in.runSSA(fr.caller, fr.site, fr.fn, args, nil, false)
	}
	isBase10 := func(v Value) bool {
		t := v.(*Term)
		return t.IsConst() && t.C == 10
	}
	r["strconv.FormatInt"] = func(in *Interp, fr *frame, args []Value) Value {
		if args[0].(*Term).IsConst() || !isBase10(args[1]) {
			return fallback(in, fr, args)
		}
		return in.symDecimal(args[0].(*Term), true)
	}
	r["strconv.FormatUint"] = func(in *Interp, fr *frame, args []Value) Value {
		if args[0].(*Term).IsConst() || !isBase10(args[1]) {
			return fallback(in, fr, args)
		}
		return in.symDecimal(args[0].(*Term), false)
	}
	r["strconv.Itoa"] = func(in *Interp, fr *frame, args []Value) Value {
		if args[0].(*Term).IsConst() {
			return fallback(in, fr, args)
		}
		return in.symDecimal(args[0].(*Term), true)
	}
	appendDec := func(signed bool) intrinsicFn {
		return func(in *Interp, fr *frame, args []Value) Value {
			if args[1].(*Term).IsConst() || !isBase10(args[2]) {
				return fallback(in, fr, args)
			}
			s := in.symDecimal(args[1].(*Term), signed)
			add := make([]Value, s.Len())
			for i := range add {
				add[i] = s.At(in.tf, i)
			}
			return in.appendVals(args[0].(Slice), add)
		}
	}
	r["strconv.AppendInt"] = appendDec(true)
	r["strconv.AppendUint"] = appendDec(false)
	// fmt's integer formatting: symbolic value, base 10, no width/precision/flags
	r["(*fmt.fmt).fmtInteger"] = func(in *Interp, fr *frame, args []Value) Value {
		u := args[1].(*Term)
		if u.IsConst() {
			return fallback(in, fr, args)
		}
		return in.fmtIntegerSym(fr, args, "fmt")
	}
	r["(*github.com/cockroachdb/redact/internal/rfmt.fmt).fmtInteger"] = func(in *Interp, fr *frame, args []Value) Value {
		u := args[1].(*Term)
		if u.IsConst() {
			return fallback(in, fr, args)
		}
		return in.fmtIntegerSym(fr, args, "github.com/cockroachdb/redact/internal/rfmt")
	}
}

// fmtIntegerSym handles (*fmt).fmtInteger(u, base, isSigned, verb, digits) for a
// symbolic u in the plain %d / %v case and defers to the source otherwise.
func (in *Interp) fmtIntegerSym(fr *frame, args []Value, pkg string) Value {
	fcell := args[0].(*Cell)
	st := fcell.V.(Struct)
	ft := deref(fr.fn.Signature.Recv().Type())
	flagsIdx := fieldIndex(ft, "fmtFlags")
	flags := st[flagsIdx].V.(Struct)
	fst := ft.Underlying().(*types.Struct).Field(flagsIdx).Type()
	plain := true
	for _, name := range []string{"widPresent", "precPresent", "plus", "space", "sharp", "zero", "minus"} {
		if i := fieldIndex(fst, name); i >= 0 {
			if t := flags[i].V.(*Term); !t.IsConst() || t.C != 0 {
				plain = false
			}
		}
	}
	base := args[2].(*Term)
	signed := args[3].(*Term)
	if !plain || !base.IsConst() || base.C != 10 || !signed.IsConst() {
		return in.runSSA(fr.caller, fr.site, fr.fn, args, nil, false)
	}
	s := in.symDecimal(args[1].(*Term), signed.C != 0)
	// f.buf.write(bytes): buf is *buffer ([]byte)
	bufIdx := fieldIndex(ft, "buf")
	bufPtr := st[bufIdx].V.(*Cell)
	add := make([]Value, s.Len())
	for i := range add {
		add[i] = s.At(in.tf, i)
	}
	in.store(bufPtr, in.appendVals(bufPtr.V.(Slice), add))
	return nil
}
