package main

// Value representation of the symbolic interpreter.
//
//   bool, integers, uintptr   *Term
//   float32/64                float64 (concrete only)
//   complex                   complex128 (concrete only)
//   string                    Str
//   pointer                   *Cell (nil pointer = (*Cell)(nil))
//   unsafe.Pointer            UPtr
//   struct                    Struct ([]Cell, copied on load/store)
//   array                     Array  ([]Cell, copied on load/store)
//   slice                     Slice
//   map                       *Map
//   chan                      *Chan
//   interface                 Iface
//   func                      *ssa.Function, *ssa.Builtin, *Closure
//   tuple                     Tuple
//   engine-provided           RType (reflect.Type / *rtype), RValue (reflect.Value), ...

import (
	"fmt"
	"go/types"
	"strings"

	"golang.org/x/tools/go/ssa"
)

type Value interface{}

type Cell struct {
	V     Value
	Epoch int32
}

type Struct []Cell
type Array []Cell

type Slice struct {
	A   []Cell // Go slice with proper len/cap into the backing array
	Nil bool
}

type Str struct {
	S string
	B []*Term // non-nil => symbolic bytes (S unused)
}

type Iface struct {
	T types.Type // canonical dynamic type; nil = nil interface
	V Value
}

type Closure struct {
	Fn  *ssa.Function
	Env []Value
}

// BoundIntrinsic is a func value implemented by the engine.
type BoundIntrinsic struct {
	Name string
	Fn   func(in *Interp, fr *frame, args []Value) Value
}

type Tuple []Value

type Chan struct {
	buf []Value
	cap int
}

type UPtr struct {
	P Value // underlying pointer-ish value (*Cell, Slice data, ...)
}

type mapEntry struct {
	K       Value
	V       Cell
	Deleted bool
}

type Map struct {
	KT      types.Type
	Entries []*mapEntry
	Idx     map[string]int // concrete-key index
	N       int            // live entries
	SymKeys int            // number of live entries with non-concrete keys
	Epoch   int32
}

func mkStr(s string) Str { return Str{S: s} }

func (s Str) Len() int {
	if s.B != nil {
		return len(s.B)
	}
	return len(s.S)
}

func (s Str) IsConcrete() bool { return s.B == nil }

func (s Str) At(f *TF, i int) *Term {
	if s.B != nil {
		return s.B[i]
	}
	return f.Const(8, uint64(s.S[i]))
}

func (s Str) Bytes(f *TF) []*Term {
	if s.B != nil {
		return s.B
	}
	r := make([]*Term, len(s.S))
	for i := 0; i < len(s.S); i++ {
		r[i] = f.Const(8, uint64(s.S[i]))
	}
	return r
}

// strFromTerms builds a Str, collapsing to a concrete string when possible.
func strFromTerms(b []*Term) Str {
	conc := true
	for _, t := range b {
		if !t.IsConst() {
			conc = false
			break
		}
	}
	if conc {
		bs := make([]byte, len(b))
		for i, t := range b {
			bs[i] = byte(t.C)
		}
		return Str{S: string(bs)}
	}
	if b == nil {
		b = []*Term{}
	}
	return Str{B: b}
}

func (s Str) Slice(lo, hi int) Str {
	if s.B != nil {
		return strFromTerms(s.B[lo:hi])
	}
	return Str{S: s.S[lo:hi]}
}

func strConcat(f *TF, a, b Str) Str {
	if a.B == nil && b.B == nil {
		return Str{S: a.S + b.S}
	}
	if a.Len() == 0 {
		return b
	}
	if b.Len() == 0 {
		return a
	}
	r := make([]*Term, 0, a.Len()+b.Len())
	r = append(r, a.Bytes(f)...)
	r = append(r, b.Bytes(f)...)
	return Str{B: r}
}

// strEq returns the term "a == b".
func strEq(f *TF, a, b Str) *Term {
	if a.Len() != b.Len() {
		return tFalse
	}
	if a.B == nil && b.B == nil {
		return f.Bool(a.S == b.S)
	}
	r := tTrue
	for i := 0; i < a.Len(); i++ {
		r = f.And(r, f.Eq(a.At(f, i), b.At(f, i)))
		if r.IsFalse() {
			return r
		}
	}
	return r
}

// strLess returns the term "a < b" (lexicographic, bytewise).
func strLess(f *TF, a, b Str) *Term {
	if a.B == nil && b.B == nil {
		return f.Bool(a.S < b.S)
	}
	n := a.Len()
	if b.Len() < n {
		n = b.Len()
	}
	// result = OR_i (prefix equal up to i AND a[i] < b[i]) OR (prefix equal n AND len(a) < len(b))
	res := tFalse
	pre := tTrue
	for i := 0; i < n; i++ {
		res = f.Or(res, f.And(pre, f.Cmp(OUlt, a.At(f, i), b.At(f, i))))
		pre = f.And(pre, f.Eq(a.At(f, i), b.At(f, i)))
		if pre.IsFalse() {
			return res
		}
	}
	if a.Len() < b.Len() {
		res = f.Or(res, pre)
	}
	return res
}

func (s Str) String() string {
	if s.B == nil {
		return fmt.Sprintf("%q", s.S)
	}
	var sb strings.Builder
	sb.WriteString("sym\"")
	for _, t := range s.B {
		if t.IsConst() {
			sb.WriteByte(byte(t.C))
		} else {
			sb.WriteString("{" + t.String() + "}")
		}
	}
	sb.WriteString("\"")
	return sb.String()
}

// ---------------------------------------------------------------------------

func (in *Interp) newCells(n int) []Cell {
	c := make([]Cell, n)
	if in.epoch != 0 {
		for i := range c {
			c[i].Epoch = in.epoch
		}
	}
	return c
}

func (in *Interp) newCell(v Value) *Cell {
	return &Cell{V: v, Epoch: in.epoch}
}

// zero returns the zero value of type t.
func (in *Interp) zero(t types.Type) Value {
	switch t := t.(type) {
	case *types.Basic:
		switch {
		case t.Kind() == types.UntypedNil:
			panic("untyped nil has no zero value")
		case t.Info()&types.IsBoolean != 0:
			return tFalse
		case t.Info()&types.IsInteger != 0:
			return in.tf.Const(in.intWidth(t), 0)
		case t.Info()&types.IsFloat != 0:
			return float64(0)
		case t.Info()&types.IsComplex != 0:
			return complex128(0)
		case t.Info()&types.IsString != 0:
			return Str{}
		case t.Kind() == types.UnsafePointer:
			return UPtr{}
		}
		panic(fmt.Sprintf("zero: basic %v", t))
	case *types.Pointer:
		return (*Cell)(nil)
	case *types.Array:
		n := int(t.Len())
		a := in.newCells(n)
		if n > 0 {
			if isScalarZero(t.Elem()) {
				z := in.zero(t.Elem())
				for i := range a {
					a[i].V = z
				}
			} else {
				for i := range a {
					a[i].V = in.zero(t.Elem())
				}
			}
		}
		return Array(a)
	case *types.Named:
		if v, ok := in.zeroSpecial(t); ok {
			return v
		}
		return in.zero(t.Underlying())
	case *types.Alias:
		return in.zero(types.Unalias(t))
	case *types.Interface:
		return Iface{}
	case *types.Slice:
		return Slice{Nil: true}
	case *types.Struct:
		s := in.newCells(t.NumFields())
		for i := range s {
			s[i].V = in.zero(t.Field(i).Type())
		}
		return Struct(s)
	case *types.Tuple:
		if t.Len() == 1 {
			return in.zero(t.At(0).Type())
		}
		s := make(Tuple, t.Len())
		for i := range s {
			s[i] = in.zero(t.At(i).Type())
		}
		return s
	case *types.Chan:
		return (*Chan)(nil)
	case *types.Map:
		return (*Map)(nil)
	case *types.Signature:
		return (*Closure)(nil)
	case *types.TypeParam:
		panic("zero of type parameter")
	}
	panic(fmt.Sprintf("zero: unexpected %T %v", t, t))
}

func isScalarZero(t types.Type) bool {
	switch t.Underlying().(type) {
	case *types.Basic, *types.Pointer:
		return true
	}
	return false
}

func (in *Interp) intWidth(t types.Type) uint8 {
	b, ok := t.Underlying().(*types.Basic)
	if !ok {
		panic(fmt.Sprintf("intWidth: %v", t))
	}
	switch b.Kind() {
	case types.Int8, types.Uint8:
		return 8
	case types.Int16, types.Uint16:
		return 16
	case types.Int32, types.Uint32:
		return 32
	case types.Int, types.Uint, types.Int64, types.Uint64, types.Uintptr, types.UntypedInt, types.UntypedRune:
		return 64
	case types.Bool, types.UntypedBool:
		return 0
	}
	panic(fmt.Sprintf("intWidth: %v", t))
}

func isSigned(t types.Type) bool {
	b, ok := t.Underlying().(*types.Basic)
	if !ok {
		return false
	}
	return b.Info()&types.IsUnsigned == 0 && b.Info()&types.IsInteger != 0
}

// copyVal returns a copy of v with value semantics (structs and arrays are deep-copied).
func (in *Interp) copyVal(v Value) Value {
	switch v := v.(type) {
	case Struct:
		n := in.newCells(len(v))
		for i := range v {
			n[i].V = in.copyVal(v[i].V)
		}
		return Struct(n)
	case Array:
		n := in.newCells(len(v))
		for i := range v {
			n[i].V = in.copyVal(v[i].V)
		}
		return Array(n)
	}
	return v
}

// typeKey gives a canonical string for a type (used for hashing only).
func (in *Interp) typeKey(t types.Type) string {
	if t == nil {
		return "<nil>"
	}
	if s, ok := in.typeKeys[t]; ok {
		return s
	}
	s := types.TypeString(t, nil)
	in.typeKeys[t] = s
	return s
}

// hashKey returns a canonical string for a fully concrete comparable value.
func (in *Interp) hashKey(v Value, sb *strings.Builder) bool {
	switch v := v.(type) {
	case *Term:
		if !v.IsConst() {
			return false
		}
		fmt.Fprintf(sb, "i%d:%d;", v.W, v.C)
	case Str:
		if v.B != nil {
			return false
		}
		fmt.Fprintf(sb, "s%d:%s;", len(v.S), v.S)
	case float64:
		fmt.Fprintf(sb, "f%v;", v)
	case *Cell:
		fmt.Fprintf(sb, "p%p;", v)
	case Iface:
		if v.T == nil {
			sb.WriteString("nil;")
			return true
		}
		sb.WriteString("I" + in.typeKey(v.T) + ":")
		return in.hashKey(v.V, sb)
	case Struct:
		sb.WriteString("{")
		for i := range v {
			if !in.hashKey(v[i].V, sb) {
				return false
			}
		}
		sb.WriteString("}")
	case Array:
		sb.WriteString("[")
		for i := range v {
			if !in.hashKey(v[i].V, sb) {
				return false
			}
		}
		sb.WriteString("]")
	case RType:
		sb.WriteString("T" + in.typeKey(v.T) + ";")
	case *Chan:
		fmt.Fprintf(sb, "c%p;", v)
	case UPtr:
		fmt.Fprintf(sb, "u%p;", v.P)
	default:
		panic(in.abort("unsupported", fmt.Sprintf("hashKey of %T", v)))
	}
	return true
}

// valEq returns the term for Go's == on two values of the same static type.
// Comparing uncomparable dynamic types panics (target panic).
func (in *Interp) valEq(a, b Value) *Term {
	f := in.tf
	switch a := a.(type) {
	case *Term:
		return f.Eq(a, b.(*Term))
	case Str:
		return strEq(f, a, b.(Str))
	case float64:
		return f.Bool(a == b.(float64))
	case complex128:
		return f.Bool(a == b.(complex128))
	case *Cell:
		return f.Bool(a == b.(*Cell))
	case UPtr:
		return f.Bool(a.P == b.(UPtr).P)
	case *Chan:
		return f.Bool(a == b.(*Chan))
	case *Map:
		bm, _ := b.(*Map)
		return f.Bool(a == bm)
	case Iface:
		bi := b.(Iface)
		if a.T == nil || bi.T == nil {
			return f.Bool(a.T == nil && bi.T == nil)
		}
		if a.T != bi.T {
			return tFalse
		}
		if !types.Comparable(a.T) {
			panic(in.targetPanicStr("runtime error: comparing uncomparable type " + in.rtypeString(a.T)))
		}
		return in.valEq(a.V, bi.V)
	case Struct:
		bs := b.(Struct)
		r := tTrue
		for i := range a {
			r = f.And(r, in.valEq(a[i].V, bs[i].V))
			if r.IsFalse() {
				return r
			}
		}
		return r
	case Array:
		bs := b.(Array)
		r := tTrue
		for i := range a {
			r = f.And(r, in.valEq(a[i].V, bs[i].V))
			if r.IsFalse() {
				return r
			}
		}
		return r
	case RType:
		bt, ok := b.(RType)
		return f.Bool(ok && a.T == bt.T)
	case RValue:
		panic(in.abort("unsupported", "== on reflect.Value"))
	case *Closure:
		bc, _ := b.(*Closure)
		if a == nil || (b != nil && bc == nil && isNilFunc(b)) {
			return f.Bool(a == nil && isNilFunc(b))
		}
		if isNilFunc(b) {
			return tFalse
		}
		panic(in.abort("unsupported", "== on funcs"))
	case *ssa.Function, *ssa.Builtin, *BoundIntrinsic:
		if isNilFunc(b) {
			return tFalse
		}
		panic(in.abort("unsupported", "== on funcs"))
	case Slice:
		// only comparison with nil is legal
		bs := b.(Slice)
		if bs.Nil && len(bs.A) == 0 {
			return f.Bool(a.Nil)
		}
		if a.Nil && len(a.A) == 0 {
			return f.Bool(bs.Nil)
		}
	case nil:
		return f.Bool(b == nil)
	}
	panic(in.abort("unsupported", fmt.Sprintf("valEq %T %T", a, b)))
}

func isNilFunc(v Value) bool {
	switch v := v.(type) {
	case *Closure:
		return v == nil
	case nil:
		return true
	}
	return false
}
