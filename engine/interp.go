package main

// Core of the symbolic SSA interpreter: frames, instruction dispatch, calls,
// panics/defers, path decisions.

import (
	"fmt"
	"runtime/debug"
	"go/token"
	"go/types"
	"os"
	"strings"

	"golang.org/x/tools/go/ssa"
	"golang.org/x/tools/go/types/typeutil"
)

// engineAbort ends the current path without a verdict.
type engineAbort struct {
	Kind string // unsupported | unwind | infeasible | budget | internal | done
	Msg  string
}

func (e *engineAbort) Error() string { return e.Kind + ": " + e.Msg }

// engineCrash wraps an interpreter bug with the stacks at the point of failure.
type engineCrash struct {
	V       interface{}
	GoStack string
	Target  string
}

// targetPanic is a Go panic of the interpreted program.
type targetPanic struct {
	V     Value // interface value passed to panic
	Stack string
}

type fnInfo struct {
	idx  map[ssa.Value]int
	n    int
	free []*frame // recycled frames (registers are not cleared: SSA defines before use)
}

type methodKey struct {
	t types.Type
	m *types.Func
}

type deferred struct {
	fn   Value
	args []Value
	site *ssa.Defer
}

type frame struct {
	in       *Interp
	caller   *frame
	fn       *ssa.Function
	site     ssa.Instruction // call site in caller
	block    *ssa.BasicBlock
	prev     *ssa.BasicBlock
	regs     []Value
	info     *fnInfo
	defers   []*deferred
	result   Value
	panicking bool
	panicVal *targetPanic
	deferredCall bool // this frame runs a deferred function
	bestEffort   bool
	depth    int
	loops    []int32
	loopsDirty bool
	cur      ssa.Instruction
}

type undoEntry struct {
	c   *Cell
	old Value
	fn  func()
}

type Interp struct {
	prog    *ssa.Program
	tf      *TF
	solver  *Solver
	globals map[*ssa.Global]*Cell
	epoch   int32

	typeKeys    map[types.Type]string
	canon       typeutil.Map
	fnInfos     map[*ssa.Function]*fnInfo
	methodCache map[methodKey]*ssa.Function
	implCache   map[[2]types.Type]bool
	constCache  map[*ssa.Const]Value
	rtStrCache  map[types.Type]string
	intrinsics  map[string]intrinsicFn
	intrCache   map[*ssa.Function]intrinsicFn
	env         *Env

	// path state
	ps *pathState

	undo     []undoEntry
	inInit   bool
	steps    int64
	maxSteps int64
	unwind   int
	trace    bool
	stackDepth int

	// statistics
	fnSteps map[*ssa.Function]int64
	intrHit map[string]int
	totalSteps int64

	curFrame  *frame
	lockDepth int
	goq       []pendingGo // goroutines started and not yet run (see runPendingGo)
	inGo      int         // > 0 while a goroutine body runs
	ptrTokens map[interface{}]uint64
	pcTable   []pcEntry
	pcIndex   map[pcEntry]int
	rfuncs    map[string]*Cell
	protoByName map[string]types.Type
	protoByType map[types.Type]string
	params      map[string]int
}

type intrinsicFn func(in *Interp, fr *frame, args []Value) Value

func (in *Interp) abort(kind, msg string) *engineAbort {
	return &engineAbort{Kind: kind, Msg: msg}
}

func (in *Interp) canonType(t types.Type) types.Type {
	if t == nil {
		return nil
	}
	if c := in.canon.At(t); c != nil {
		return c.(types.Type)
	}
	in.canon.Set(t, t)
	return t
}

func (in *Interp) info(fn *ssa.Function) *fnInfo {
	if fi, ok := in.fnInfos[fn]; ok {
		return fi
	}
	fi := &fnInfo{idx: map[ssa.Value]int{}}
	add := func(v ssa.Value) {
		fi.idx[v] = fi.n
		fi.n++
	}
	for _, p := range fn.Params {
		add(p)
	}
	for _, p := range fn.FreeVars {
		add(p)
	}
	for _, b := range fn.Blocks {
		for _, ins := range b.Instrs {
			if v, ok := ins.(ssa.Value); ok {
				add(v)
			}
		}
	}
	in.fnInfos[fn] = fi
	return fi
}

func (fr *frame) get(v ssa.Value) Value {
	switch v := v.(type) {
	case nil:
		return nil
	case *ssa.Const:
		return fr.in.constVal(v)
	case *ssa.Global:
		c, ok := fr.in.globals[v]
		if !ok {
			panic(fr.in.abort("internal", "no global "+v.String()))
		}
		return c
	case *ssa.Function:
		return v
	case *ssa.Builtin:
		return v
	}
	i, ok := fr.info.idx[v]
	if !ok {
		panic(fr.in.abort("internal", fmt.Sprintf("no register for %T %s in %s", v, v.Name(), fr.fn)))
	}
	return fr.regs[i]
}

func (fr *frame) set(v ssa.Value, x Value) {
	fr.regs[fr.info.idx[v]] = x
}

func (in *Interp) constVal(c *ssa.Const) Value {
	if v, ok := in.constCache[c]; ok {
		return v
	}
	v, cache := in.constValue(c)
	if cache {
		in.constCache[c] = v
	}
	return v
}

// ---------------------------------------------------------------------------
// stores (all writes to memory go through here)

func (in *Interp) store(c *Cell, v Value) {
	if c == nil {
		panic(in.targetPanicStr("runtime error: invalid memory address or nil pointer dereference"))
	}
	// Aggregates are assigned in place, field by field: pointers to fields or
	// elements of the destination taken earlier must stay valid.
	switch nv := v.(type) {
	case Struct:
		if ov, ok := c.V.(Struct); ok && len(ov) == len(nv) {
			for i := range ov {
				in.store(&ov[i], nv[i].V)
			}
			return
		}
	case Array:
		if ov, ok := c.V.(Array); ok && len(ov) == len(nv) {
			for i := range ov {
				in.store(&ov[i], nv[i].V)
			}
			return
		}
	}
	if in.ps != nil {
		if c.Epoch == 0 {
			in.undo = append(in.undo, undoEntry{c: c, old: c.V})
		}
		if in.ps.frozen && c.Epoch < in.epoch {
			in.ps.noteSharedWrite(in, c)
		}
	}
	c.V = v
}

func (in *Interp) rollback() {
	for i := len(in.undo) - 1; i >= 0; i-- {
		u := in.undo[i]
		if u.fn != nil {
			u.fn()
		} else {
			u.c.V = u.old
		}
	}
	in.undo = in.undo[:0]
}

func (in *Interp) load(c *Cell) Value {
	if c == nil {
		panic(in.targetPanicStr("runtime error: invalid memory address or nil pointer dereference"))
	}
	return in.copyVal(c.V)
}

// ---------------------------------------------------------------------------
// panics

func (in *Interp) targetPanicStr(msg string) *targetPanic {
	return &targetPanic{V: in.runtimeError(msg), Stack: in.stackString()}
}

func (in *Interp) stackString() string {
	return ""
}

func (in *Interp) callStack(fr *frame) string {
	var sb strings.Builder
	for f := fr; f != nil; f = f.caller {
		pos := token.NoPos
		if f.cur != nil {
			pos = f.cur.Pos()
		}
		fmt.Fprintf(&sb, "  %s %s\n", f.fn.String(), in.prog.Fset.Position(pos))
	}
	return sb.String()
}

// ---------------------------------------------------------------------------
// calls

func (in *Interp) prepareCall(fr *frame, call *ssa.CallCommon) (fn Value, args []Value) {
	v := fr.get(call.Value)
	if call.Method == nil {
		fn = v
		args = make([]Value, 0, len(call.Args))
	} else {
		recv, ok := v.(Iface)
		if !ok {
			panic(in.abort("internal", fmt.Sprintf("invoke on %T", v)))
		}
		if recv.T == nil {
			panic(in.targetPanicStr("runtime error: invalid memory address or nil pointer dereference"))
		}
		args = make([]Value, 0, len(call.Args)+1)
		f := in.lookupMethod(recv.T, call.Method)
		if f == nil {
			panic(in.abort("internal", fmt.Sprintf("method set of %v lacks %s", recv.T, call.Method)))
		}
		fn = f
		args = append(args, recv.V)
	}
	for _, a := range call.Args {
		args = append(args, fr.get(a))
	}
	return
}

type pendingGo struct {
	fn   Value
	args []Value
	site ssa.Instruction
}

// runPendingGo runs the goroutines started so far, each to completion. With two
// or more pending, two schedules are explored (a choice of the path): in
// spawning order and in reverse order. Goroutines they start are run as well.
func (in *Interp) runPendingGo(fr *frame) {
	for len(in.goq) > 0 {
		q := in.goq
		in.goq = nil
		if len(q) > 1 && in.ps.choose(in, 2) == 1 {
			for i, j := 0, len(q)-1; i < j; i, j = i+1, j-1 {
				q[i], q[j] = q[j], q[i]
			}
		}
		for _, g := range q {
			in.inGo++
			in.call(fr, g.site, g.fn, g.args)
			in.inGo--
		}
	}
}

func (in *Interp) lookupMethod(t types.Type, m *types.Func) *ssa.Function {
	k := methodKey{t, m}
	if f, ok := in.methodCache[k]; ok {
		return f
	}
	f := in.prog.LookupMethod(t, m.Pkg(), m.Name())
	in.methodCache[k] = f
	return f
}

func (in *Interp) call(fr *frame, site ssa.Instruction, fn Value, args []Value) Value {
	switch fn := fn.(type) {
	case *ssa.Function:
		if fn == nil {
			panic(in.targetPanicStr("runtime error: invalid memory address or nil pointer dereference"))
		}
		return in.callSSA(fr, site, fn, args, nil)
	case *Closure:
		if fn == nil {
			panic(in.targetPanicStr("runtime error: invalid memory address or nil pointer dereference"))
		}
		return in.callSSA(fr, site, fn.Fn, args, fn.Env)
	case *ssa.Builtin:
		return in.callBuiltin(fr, site, fn, args)
	case *BoundIntrinsic:
		in.intrHit[fn.Name]++
		return fn.Fn(in, fr, args)
	}
	panic(in.abort("internal", fmt.Sprintf("cannot call %T", fn)))
}

func (in *Interp) findIntrinsic(fn *ssa.Function) intrinsicFn {
	if f, ok := in.intrCache[fn]; ok {
		return f
	}
	var f intrinsicFn
	name := fn.String()
	if o := fn.Origin(); o != nil {
		name = o.String()
	}
	if g, ok := in.intrinsics[name]; ok {
		f = g
	}
	in.intrCache[fn] = f
	return f
}

func (in *Interp) callSSA(caller *frame, site ssa.Instruction, fn *ssa.Function, args []Value, env []Value) Value {
	if intr := in.findIntrinsic(fn); intr != nil {
		// give the intrinsic a pseudo frame so that the call-stack model sees it
		fr := &frame{in: in, caller: caller, fn: fn, site: site}
		if caller != nil {
			fr.depth = caller.depth + 1
		}
		in.intrHit[fn.String()]++
		return intr(in, fr, args)
	}
	if fn.Blocks == nil {
		if fn.Synthetic != "" && strings.HasPrefix(fn.Name(), "init") {
			return nil
		}
		panic(in.abort("unsupported", "no code for function "+fn.String()))
	}
	if fn.Name() == "init" && fn.Synthetic == "package initializer" && fn.Pkg != nil {
		switch in.initPolicy(fn.Pkg.Pkg.Path()) {
		case initSkip:
			return nil
		case initBestEffort:
			return in.runSSA(caller, site, fn, args, env, true)
		}
	}
	return in.runSSA(caller, site, fn, args, env, false)
}

func (in *Interp) newFrame(fi *fnInfo) *frame {
	if n := len(fi.free); n > 0 {
		fr := fi.free[n-1]
		fi.free = fi.free[:n-1]
		regs, loops, dirty := fr.regs, fr.loops, fr.loopsDirty
		if dirty {
			for i := range loops {
				loops[i] = 0
			}
		}
		*fr = frame{regs: regs, loops: loops}
		return fr
	}
	return &frame{regs: make([]Value, fi.n)}
}

func (in *Interp) runSSA(caller *frame, site ssa.Instruction, fn *ssa.Function, args []Value, env []Value, bestEffort bool) Value {
	fi := in.info(fn)
	fr := in.newFrame(fi)
	fr.in, fr.caller, fr.fn, fr.site, fr.info, fr.bestEffort = in, caller, fn, site, fi, bestEffort
	if caller != nil {
		fr.depth = caller.depth + 1
		if fr.depth > 2000 {
			panic(in.abort("unwind", "call depth > 2000 in "+fn.String()))
		}
	}
	if len(args) != len(fn.Params) {
		panic(in.abort("internal", fmt.Sprintf("arg count mismatch calling %s: %d vs %d", fn, len(args), len(fn.Params))))
	}
	copy(fr.regs, args)
	copy(fr.regs[len(fn.Params):], env)
	fr.block = fn.Blocks[0]
	for fr.block != nil {
		in.runFrame(fr)
	}
	res := fr.result
	fr.result = nil
	fr.defers = nil
	fi.free = append(fi.free, fr)
	return res
}

func (in *Interp) runFrame(fr *frame) {
	defer func() {
		if fr.block == nil {
			return // normal return
		}
		r := recover()
		tp, ok := r.(*targetPanic)
		if !ok {
			switch r.(type) {
			case *engineAbort, *engineCrash:
				panic(r)
			}
			panic(&engineCrash{V: r, GoStack: string(debug.Stack()), Target: in.callStack(fr)})
		}
		fr.panicking = true
		fr.panicVal = tp
		in.runDefers(fr)
		// recovered
		fr.block = fr.fn.Recover
		if fr.block == nil {
			fr.result = in.zeroResults(fr.fn)
		}
	}()
	for {
		// phis
		blk := fr.block
		if fr.prev != nil && len(blk.Instrs) > 0 {
			if _, ok := blk.Instrs[0].(*ssa.Phi); ok {
				in.doPhis(fr, blk)
			}
		}
		if len(blk.Preds) > 1 {
			// potential loop header: count activations
			if fr.loops == nil {
				fr.loops = make([]int32, len(fr.fn.Blocks))
			}
			fr.loopsDirty = true
			fr.loops[blk.Index]++
			if int(fr.loops[blk.Index]) > in.unwind && !in.inInit {
				panic(in.abort("unwind", fmt.Sprintf("loop bound %d exceeded in %s block %d", in.unwind, fr.fn, blk.Index)))
			}
		}
		jumped := false
		for _, instr := range blk.Instrs {
			if _, ok := instr.(*ssa.Phi); ok {
				continue
			}
			fr.cur = instr
			in.curFrame = fr
			if traceFn != "" && fr.fn.Name() == traceFn {
				fmt.Fprintf(os.Stderr, "TRACE b%d %v\n", blk.Index, instr)
			}
			in.steps++
			if in.maxSteps > 0 && in.steps > in.maxSteps {
				panic(in.abort("budget", fmt.Sprintf("step budget %d exceeded", in.maxSteps)))
			}
			var k int
			if fr.bestEffort {
				k = in.visitBestEffort(fr, instr)
			} else {
				k = in.visitInstr(fr, instr)
			}
			if k == kReturn {
				return
			}
			if k == kJump {
				jumped = true
				break
			}
		}
		if !jumped {
			panic(in.abort("internal", "block fell through"))
		}
	}
}

func (in *Interp) visitBestEffort(fr *frame, instr ssa.Instruction) (k int) {
	defer func() {
		if r := recover(); r != nil {
			switch e := r.(type) {
			case *engineAbort:
				if e.Kind != "unsupported" && e.Kind != "unwind" {
					panic(r)
				}
			case *targetPanic:
			case *engineCrash:
				fmt.Fprintf(os.Stderr, "engine crash during best-effort init: %v\n%s\n%s\n", e.V, e.Target, e.GoStack)
				panic(r)
			default:
				panic(r)
			}
			if v, ok := instr.(ssa.Value); ok {
				fr.set(v, in.zero(v.Type()))
			}
			in.env.noteInitSkip(fr.fn, instr, r)
			k = kNext
		}
	}()
	return in.visitInstr(fr, instr)
}

func (in *Interp) zeroResults(fn *ssa.Function) Value {
	res := fn.Signature.Results()
	switch res.Len() {
	case 0:
		return nil
	case 1:
		return in.zero(res.At(0).Type())
	}
	return in.zero(res)
}

func (in *Interp) doPhis(fr *frame, blk *ssa.BasicBlock) {
	idx := -1
	for i, p := range blk.Preds {
		if p == fr.prev {
			idx = i
			break
		}
	}
	if idx < 0 {
		panic(in.abort("internal", "phi: predecessor not found"))
	}
	var tmp [8]Value
	vals := tmp[:0]
	for _, instr := range blk.Instrs {
		phi, ok := instr.(*ssa.Phi)
		if !ok {
			break
		}
		vals = append(vals, fr.get(phi.Edges[idx]))
	}
	for i, instr := range blk.Instrs {
		phi, ok := instr.(*ssa.Phi)
		if !ok {
			break
		}
		fr.set(phi, vals[i])
	}
}

func (in *Interp) runDefers(fr *frame) {
	for len(fr.defers) > 0 {
		d := fr.defers[len(fr.defers)-1]
		fr.defers = fr.defers[:len(fr.defers)-1]
		in.runDefer(fr, d)
	}
	if fr.panicking {
		panic(fr.panicVal)
	}
}

func (in *Interp) runDefer(fr *frame, d *deferred) {
	ok := false
	defer func() {
		if !ok {
			r := recover()
			tp, isTP := r.(*targetPanic)
			if !isTP {
				panic(r)
			}
			fr.panicking = true
			fr.panicVal = tp
		}
	}()
	in.callDeferred(fr, d)
	ok = true
}

func (in *Interp) callDeferred(fr *frame, d *deferred) {
	switch fn := d.fn.(type) {
	case *ssa.Function:
		if in.findIntrinsic(fn) == nil && fn.Blocks != nil {
			in.runDeferredSSA(fr, d.site, fn, d.args, nil)
			return
		}
	case *Closure:
		if fn != nil {
			in.runDeferredSSA(fr, d.site, fn.Fn, d.args, fn.Env)
			return
		}
	case *ssa.Builtin:
		if fn.Name() == "recover" {
			// defer recover() does not recover
			return
		}
	}
	in.call(fr, d.site, d.fn, d.args)
}

func (in *Interp) runDeferredSSA(caller *frame, site ssa.Instruction, fn *ssa.Function, args []Value, env []Value) {
	fi := in.info(fn)
	fr := in.newFrame(fi)
	fr.in, fr.caller, fr.fn, fr.site, fr.info, fr.deferredCall = in, caller, fn, site, fi, true
	fr.depth = caller.depth + 1
	copy(fr.regs, args)
	copy(fr.regs[len(fn.Params):], env)
	fr.block = fn.Blocks[0]
	for fr.block != nil {
		in.runFrame(fr)
	}
	fr.result = nil
	fr.defers = nil
	fi.free = append(fi.free, fr)
}

const (
	kNext = iota
	kReturn
	kJump
)

func (in *Interp) visitInstr(fr *frame, instr ssa.Instruction) int {
	if in.fnSteps != nil {
		in.fnSteps[fr.fn]++
	}
	switch instr := instr.(type) {
	case *ssa.DebugRef:
	case *ssa.UnOp:
		fr.set(instr, in.unop(fr, instr, fr.get(instr.X)))
	case *ssa.BinOp:
		fr.set(instr, in.binop(instr.Op, instr.X.Type(), fr.get(instr.X), fr.get(instr.Y), instr.Y.Type()))
	case *ssa.Call:
		fn, args := in.prepareCall(fr, &instr.Call)
		fr.set(instr, in.call(fr, instr, fn, args))
	case *ssa.ChangeInterface:
		fr.set(instr, fr.get(instr.X))
	case *ssa.ChangeType:
		fr.set(instr, fr.get(instr.X))
	case *ssa.Convert:
		fr.set(instr, in.conv(instr.Type(), instr.X.Type(), fr.get(instr.X)))
	case *ssa.MultiConvert:
		fr.set(instr, in.conv(instr.Type(), instr.X.Type(), fr.get(instr.X)))
	case *ssa.SliceToArrayPointer:
		s := fr.get(instr.X).(Slice)
		n := int(instr.Type().Underlying().(*types.Pointer).Elem().Underlying().(*types.Array).Len())
		if len(s.A) < n {
			panic(in.targetPanicStr("runtime error: cannot convert slice to array pointer: length mismatch"))
		}
		if s.Nil {
			fr.set(instr, (*Cell)(nil))
		} else {
			fr.set(instr, in.newCell(Array(s.A[:n:n])))
		}
	case *ssa.MakeInterface:
		fr.set(instr, Iface{T: in.canonType(instr.X.Type()), V: fr.get(instr.X)})
	case *ssa.Extract:
		fr.set(instr, fr.get(instr.Tuple).(Tuple)[instr.Index])
	case *ssa.Slice:
		fr.set(instr, in.sliceOp(instr, fr.get(instr.X), fr.get(instr.Low), fr.get(instr.High), fr.get(instr.Max)))
	case *ssa.Return:
		switch len(instr.Results) {
		case 0:
		case 1:
			fr.result = fr.get(instr.Results[0])
		default:
			res := make(Tuple, len(instr.Results))
			for i, r := range instr.Results {
				res[i] = fr.get(r)
			}
			fr.result = res
		}
		fr.block = nil
		return kReturn
	case *ssa.RunDefers:
		in.runDefers(fr)
	case *ssa.Panic:
		panic(&targetPanic{V: fr.get(instr.X), Stack: in.callStack(fr)})
	case *ssa.Store:
		in.store(in.asPtr(fr.get(instr.Addr)), in.copyVal(fr.get(instr.Val)))
	case *ssa.If:
		succ := 1
		if in.branch(fr.get(instr.Cond).(*Term)) {
			succ = 0
		}
		fr.prev, fr.block = fr.block, fr.block.Succs[succ]
		return kJump
	case *ssa.Jump:
		fr.prev, fr.block = fr.block, fr.block.Succs[0]
		return kJump
	case *ssa.Defer:
		if instr.DeferStack != nil {
			panic(in.abort("unsupported", "defer with DeferStack"))
		}
		fn, args := in.prepareCall(fr, &instr.Call)
		fr.defers = append(fr.defers, &deferred{fn: fn, args: args, site: instr})
	case *ssa.Go:
		// Goroutine model (bounded): a goroutine runs to completion, without
		// interleaving, when the spawning code next waits (WaitGroup.Wait, a receive
		// that would block) or, at the latest, when the harness returns.
		fn, args := in.prepareCall(fr, &instr.Call)
		in.goq = append(in.goq, pendingGo{fn: fn, args: args, site: instr})
	case *ssa.MakeChan:
		fr.set(instr, &Chan{cap: int(in.concInt(fr.get(instr.Size).(*Term), true))})
	case *ssa.Send:
		ch := fr.get(instr.Chan).(*Chan)
		// inside a goroutine body a send that would block is queued: the spawning
		// code receives once the bodies have run
		if ch == nil || (len(ch.buf) >= ch.cap && in.inGo == 0) {
			panic(in.abort("unsupported", "blocking channel send"))
		}
		ch.buf = append(ch.buf, fr.get(instr.X))
	case *ssa.Alloc:
		fr.set(instr, in.newCell(in.zero(deref(instr.Type()))))
	case *ssa.MakeSlice:
		n := int(in.concInt(fr.get(instr.Len).(*Term), true))
		c := int(in.concInt(fr.get(instr.Cap).(*Term), true))
		if n < 0 || c < n {
			panic(in.targetPanicStr("runtime error: makeslice: len out of range"))
		}
		if c > 1<<24 {
			panic(in.abort("unsupported", "huge makeslice"))
		}
		cells := in.newCells(c)
		et := instr.Type().Underlying().(*types.Slice).Elem()
		if c > 0 {
			if isScalarZero(et) {
				z := in.zero(et)
				for i := range cells {
					cells[i].V = z
				}
			} else {
				for i := range cells {
					cells[i].V = in.zero(et)
				}
			}
		}
		fr.set(instr, Slice{A: cells[:n]})
	case *ssa.MakeMap:
		fr.set(instr, in.newMap(instr.Type().Underlying().(*types.Map).Key()))
	case *ssa.Range:
		fr.set(instr, in.rangeIter(fr.get(instr.X), instr.X.Type()))
	case *ssa.Next:
		fr.set(instr, fr.get(instr.Iter).(iterator).next(in))
	case *ssa.FieldAddr:
		p := in.asPtr(fr.get(instr.X))
		if p == nil {
			panic(in.targetPanicStr("runtime error: invalid memory address or nil pointer dereference"))
		}
		st, ok := p.V.(Struct)
		if !ok {
			panic(in.abort("internal", fmt.Sprintf("FieldAddr on %T in %s", p.V, fr.fn)))
		}
		fr.set(instr, &st[instr.Field])
	case *ssa.Field:
		fr.set(instr, fr.get(instr.X).(Struct)[instr.Field].V)
	case *ssa.IndexAddr:
		x := fr.get(instr.X)
		idx := fr.get(instr.Index).(*Term)
		switch x := x.(type) {
		case Slice:
			if !idx.IsConst() && len(x.A) > 8 && allConstScalars(x.A) {
				fr.set(instr, in.symElemPtr(x.A, idx, isSigned(instr.Index.Type())))
				break
			}
			i := in.indexCheck(idx, len(x.A), isSigned(instr.Index.Type()))
			fr.set(instr, &x.A[i])
		case *Cell:
			if x == nil {
				panic(in.targetPanicStr("runtime error: invalid memory address or nil pointer dereference"))
			}
			arr := x.V.(Array)
			if !idx.IsConst() && len(arr) > 8 && allConstScalars(arr) {
				fr.set(instr, in.symElemPtr(arr, idx, isSigned(instr.Index.Type())))
				break
			}
			i := in.indexCheck(idx, len(arr), isSigned(instr.Index.Type()))
			fr.set(instr, &arr[i])
		default:
			panic(in.abort("internal", fmt.Sprintf("IndexAddr on %T", x)))
		}
	case *ssa.Index:
		x := fr.get(instr.X)
		idx := fr.get(instr.Index).(*Term)
		switch x := x.(type) {
		case Array:
			i := in.indexCheck(idx, len(x), isSigned(instr.Index.Type()))
			fr.set(instr, in.copyVal(x[i].V))
		case Str:
			i := in.indexCheck(idx, x.Len(), isSigned(instr.Index.Type()))
			fr.set(instr, x.At(in.tf, i))
		default:
			panic(in.abort("internal", fmt.Sprintf("Index on %T", x)))
		}
	case *ssa.Lookup:
		fr.set(instr, in.lookup(instr, fr.get(instr.X), fr.get(instr.Index)))
	case *ssa.MapUpdate:
		m := fr.get(instr.Map).(*Map)
		if m == nil {
			panic(in.targetPanicStr("assignment to entry in nil map"))
		}
		in.mapSet(m, fr.get(instr.Key), in.copyVal(fr.get(instr.Value)))
	case *ssa.TypeAssert:
		fr.set(instr, in.typeAssert(instr, fr.get(instr.X).(Iface)))
	case *ssa.MakeClosure:
		env := make([]Value, len(instr.Bindings))
		for i, b := range instr.Bindings {
			env[i] = fr.get(b)
		}
		fr.set(instr, &Closure{Fn: instr.Fn.(*ssa.Function), Env: env})
	case *ssa.Select:
		panic(in.abort("unsupported", "select in "+fr.fn.String()))
	default:
		panic(in.abort("unsupported", fmt.Sprintf("instruction %T", instr)))
	}
	return kNext
}

func deref(t types.Type) types.Type {
	if p, ok := t.Underlying().(*types.Pointer); ok {
		return p.Elem()
	}
	panic("deref of non-pointer " + t.String())
}

// SymElemPtr is the address of an element of a table of constant scalars at a
// symbolic index; it can only be loaded from (the load is an ite-chain term).
type SymElemPtr struct {
	Cells []Cell
	Idx   *Term // 64-bit, known to be in range
}

func allConstScalars(cells []Cell) bool {
	for i := range cells {
		t, ok := cells[i].V.(*Term)
		if !ok || !t.IsConst() {
			return false
		}
	}
	return true
}

func (in *Interp) symElemPtr(cells []Cell, idx *Term, signed bool) SymElemPtr {
	idx = in.tf.Conv(idx, 64, signed)
	inRange := in.tf.Cmp(OUlt, idx, in.tf.Const(64, uint64(len(cells))))
	if !in.branch(inRange) {
		panic(in.targetPanicStr(fmt.Sprintf("runtime error: index out of range [sym] with length %d", len(cells))))
	}
	return SymElemPtr{Cells: cells, Idx: idx}
}

// loadSymElem reads a constant table at a symbolic index: runs of equal values
// become one range test each.
func (in *Interp) loadSymElem(p SymElemPtr) Value {
	f := in.tf
	n := len(p.Cells)
	// start from the last run and build ite(idx <= runEnd, val, rest) backwards
	res := p.Cells[n-1].V.(*Term)
	i := n - 1
	for i >= 0 && p.Cells[i].V.(*Term).C == res.C {
		i--
	}
	for i >= 0 {
		val := p.Cells[i].V.(*Term)
		end := i
		for i >= 0 && p.Cells[i].V.(*Term).C == val.C {
			i--
		}
		res = f.Ite(f.Cmp(OUle, p.Idx, f.Const(64, uint64(end))), val, res)
	}
	return res
}

func (in *Interp) asPtr(v Value) *Cell {
	switch v := v.(type) {
	case *Cell:
		return v
	case UPtr:
		if c, ok := v.P.(*Cell); ok {
			return c
		}
		if v.P == nil {
			return nil
		}
	}
	panic(in.abort("internal", fmt.Sprintf("asPtr %T", v)))
}

// indexCheck resolves an index term to a concrete in-range index (forking on
// feasible values if symbolic) and raises the Go bounds panic otherwise.
func (in *Interp) indexCheck(idx *Term, n int, signed bool) int {
	if idx.IsConst() {
		var i int64
		if signed {
			i = idx.SVal()
		} else {
			i = int64(idx.C)
			if idx.C > 1<<62 {
				i = -1
			}
		}
		if i < 0 || i >= int64(n) {
			panic(in.targetPanicStr(fmt.Sprintf("runtime error: index out of range [%d] with length %d", i, n)))
		}
		return int(i)
	}
	// symbolic: in range? (compare at 64 bits; a negative signed index is huge unsigned)
	idx = in.tf.Conv(idx, 64, signed)
	w := idx.W
	inRange := in.tf.Cmp(OUlt, idx, in.tf.Const(w, uint64(n)))
	if !in.branch(inRange) {
		panic(in.targetPanicStr(fmt.Sprintf("runtime error: index out of range [sym] with length %d", n)))
	}
	return int(in.concInt(idx, false))
}

func (in *Interp) typeAssert(instr *ssa.TypeAssert, itf Iface) Value {
	var v Value
	ok := false
	if _, isIface := instr.AssertedType.Underlying().(*types.Interface); isIface {
		if itf.T != nil && in.implements(itf.T, instr.AssertedType) {
			v = itf
			ok = true
		}
	} else {
		at := in.canonType(instr.AssertedType)
		if itf.T == at {
			v = itf.V
			ok = true
		}
	}
	if !ok {
		if instr.CommaOk {
			return Tuple{in.zero(instr.AssertedType), tFalse}
		}
		have := "nil"
		if itf.T != nil {
			have = in.rtypeString(itf.T)
		}
		panic(&targetPanic{V: in.plainRuntimeError(fmt.Sprintf("interface conversion: interface is %s, not %s", have, in.rtypeString(instr.AssertedType)))})
	}
	if instr.CommaOk {
		return Tuple{v, tTrue}
	}
	return v
}

func (in *Interp) implements(t types.Type, iface types.Type) bool {
	k := [2]types.Type{t, iface}
	if b, ok := in.implCache[k]; ok {
		return b
	}
	it := iface.Underlying().(*types.Interface)
	b := types.Implements(t, it)
	in.implCache[k] = b
	return b
}

// ---------------------------------------------------------------------------
// Decisions

// branch decides a boolean condition on the current path, forking if both
// outcomes are feasible.
func (in *Interp) branch(c *Term) bool {
	if c.IsConst() {
		return c.C != 0
	}
	ps := in.ps
	if ps == nil {
		panic(in.abort("internal", "symbolic branch outside a path (init?)"))
	}
	if v, ok := ps.known[c]; ok {
		return v
	}
	return ps.decideBool(in, c)
}

func (in *Interp) concInt(t *Term, signed bool) int64 {
	if t.IsConst() {
		if signed {
			return t.SVal()
		}
		return int64(t.C)
	}
	ps := in.ps
	if ps == nil {
		panic(in.abort("internal", "symbolic int outside a path"))
	}
	for i := 0; i < 64; i++ {
		c := ps.candidate(in, t)
		if in.branch(in.tf.Eq(t, in.tf.Const(t.W, c))) {
			if signed {
				return sext64(c, t.W)
			}
			return int64(c)
		}
	}
	panic(in.abort("unwind", "more than 64 feasible values for a symbolic integer used as size/index"))
}

var traceFn = os.Getenv("SYMGO_TRACE")

func debugf(format string, args ...interface{}) {
	fmt.Fprintf(os.Stderr, format, args...)
}
