package main

// The check driver: runs the harnesses of one property, validates the
// translation against native execution, replays counterexamples natively,
// applies the known-findings file, writes evidence, sets the exit code.

import (
	"encoding/base64"
	"encoding/json"
	"flag"
	"fmt"
	"os"
	"os/exec"
	"path/filepath"
	"sort"
	"strconv"
	"strings"
	"time"
)

type HarnessSpec struct {
	Name     string         `json:"name"`
	Quick    map[string]int `json:"quick"`
	Thorough map[string]int `json:"thorough"`
	MustReach []string      `json:"must_reach"`
	Note     string         `json:"note"`
	Race     bool           `json:"race"` // replay counterexamples under the race detector
	Tiers    []string       `json:"tiers"` // if set: run this entry only in these tiers
}

type CheckSpec struct {
	Title     string        `json:"title"`
	Harnesses []HarnessSpec `json:"harnesses"`
	Bounds    string        `json:"bounds"`
	Outside   []string      `json:"outside"`
	Assumptions []string    `json:"assumptions"`
}

type KnownFinding struct {
	Status   string `json:"status"` // known | fixed
	Property string `json:"property"`
	Assert   string `json:"assert"`
	What     string `json:"what"`
	Commit   string `json:"commit,omitempty"`
}

type nativeJob struct {
	Harness string                 `json:"harness"`
	Inputs  map[string]interface{} `json:"inputs"`
	Params  map[string]int         `json:"params"`
}

type nativeResult struct {
	Harness  string `json:"harness"`
	Obs      []string
	Failures []struct {
		ID  string
		Msg string
	}
	Spurious string
	Reached  map[string]int
}

// verifDir is /verif; VERIF_DIR / VERIF_REPO redirect a scratch clone (tools/clone.sh) for
// exploratory runs that must not touch /repo. Registered checks always run with the defaults.
var verifDir = envOr("VERIF_DIR", "/verif")
var repoDir = envOr("VERIF_REPO", "/repo")

func envOr(k, d string) string {
	if v := os.Getenv(k); v != "" {
		return v
	}
	return d
}

func goEnv() []string {
	return append(os.Environ(), "GOFLAGS=-mod=mod", "GOPROXY=off", "GOSUMDB=off", "GOTOOLCHAIN=local", "CGO_ENABLED=0")
}

func buildNative(race bool) (string, error) {
	// keep go.sum in sync with /repo
	if b, err := os.ReadFile(filepath.Join(repoDir, "go.sum")); err == nil {
		os.WriteFile(filepath.Join(verifDir, "harness", "go.sum"), b, 0o644)
	}
	out := filepath.Join(verifDir, "bin", "native")
	args := []string{"build", "-o", out}
	env := goEnv()
	if race {
		out += "-race"
		args = []string{"build", "-race", "-o", out}
		env = append(os.Environ(), "GOFLAGS=-mod=mod", "GOPROXY=off", "GOSUMDB=off", "GOTOOLCHAIN=local", "CGO_ENABLED=1")
	}
	args = append(args, "./cmd/native")
	cmd := exec.Command("go", args...)
	cmd.Dir = filepath.Join(verifDir, "harness")
	cmd.Env = env
	b, err := cmd.CombinedOutput()
	if err != nil {
		return "", fmt.Errorf("go build native: %v\n%s", err, b)
	}
	return out, nil
}

func runNative(bin string, jobs []nativeJob) ([]nativeResult, error) {
	if len(jobs) == 0 {
		return nil, nil
	}
	dir, err := os.MkdirTemp("", "verif-native")
	if err != nil {
		return nil, err
	}
	defer os.RemoveAll(dir)
	jb, _ := json.Marshal(jobs)
	jf := filepath.Join(dir, "jobs.json")
	rf := filepath.Join(dir, "results.json")
	os.WriteFile(jf, jb, 0o644)
	cmd := exec.Command(bin, jf, rf)
	cmd.Dir = filepath.Join(verifDir, "harness")
	cmd.Env = append(os.Environ(), "GORACE=halt_on_error=1 exitcode=66")
	b, err := cmd.CombinedOutput()
	if err != nil {
		if strings.Contains(string(b), "DATA RACE") {
			// the race detector fired: report it as a failure of the (single) job
			res := make([]nativeResult, len(jobs))
			for i := range res {
				res[i].Harness = jobs[i].Harness
				res[i].Failures = append(res[i].Failures, struct {
					ID  string
					Msg string
				}{ID: "*data-race*", Msg: firstLines(string(b), 30)})
			}
			return res, nil
		}
		return nil, fmt.Errorf("native run: %v\n%s", err, b)
	}
	rb, err := os.ReadFile(rf)
	if err != nil {
		return nil, err
	}
	var res []nativeResult
	if err := json.Unmarshal(rb, &res); err != nil {
		return nil, err
	}
	for i := range res {
		for j, o := range res[i].Obs {
			if d, err := base64.StdEncoding.DecodeString(o); err == nil {
				res[i].Obs[j] = string(d)
			}
		}
	}
	return res, nil
}

func loadChecks() (map[string]CheckSpec, error) {
	b, err := os.ReadFile(filepath.Join(verifDir, "checks.json"))
	if err != nil {
		return nil, err
	}
	var m map[string]CheckSpec
	if err := json.Unmarshal(b, &m); err != nil {
		return nil, err
	}
	return m, nil
}

func loadKnown() []KnownFinding {
	b, err := os.ReadFile(filepath.Join(verifDir, "known_findings.json"))
	if err != nil {
		return nil
	}
	var k []KnownFinding
	json.Unmarshal(b, &k)
	return k
}

type harnessReport struct {
	Name        string                   `json:"harness"`
	Params      map[string]int           `json:"params"`
	Paths       int                      `json:"paths"`
	PathsAborted int                     `json:"paths_aborted"`
	Steps       int64                    `json:"ssa_instructions_executed"`
	Asserts     map[string]int           `json:"asserts"`
	Reached     map[string]int           `json:"assert_reached_on_paths"`
	Queries     map[string]int           `json:"solver_queries"`
	SolveTimeS  float64                  `json:"solver_time_s"`
	WallS       float64                  `json:"wall_s"`
	Inconclusive map[string]int          `json:"inconclusive"`
	InconcExamples []string              `json:"inconclusive_examples,omitempty"`
	Validated   int                      `json:"native_validated"`
	Mismatches  int                      `json:"translator_mismatches"`
	ForksBySite map[string]int           `json:"forks_by_site,omitempty"`
	Unexplored  int                      `json:"unexplored_prefixes"`
	Vacuous     []string                 `json:"vacuous_asserts,omitempty"`
	Samples     []map[string]interface{} `json:"-"`
}

func cmdCheck(args []string) {
	fs := flag.NewFlagSet("check", flag.ExitOnError)
	id := fs.String("id", "", "property id")
	tier := fs.String("tier", "quick", "quick|thorough")
	workers := fs.Int("workers", 16, "workers")
	only := fs.String("harness", "", "run only this harness")
	noEvidence := fs.Bool("no-evidence", false, "do not write the evidence file")
	fs.Parse(args)
	if t := os.Getenv("VERIF_TIER"); t != "" && !isFlagSet(fs, "tier") {
		*tier = t
	}
	seed := int64(1)
	if s := os.Getenv("VERIF_SEED"); s != "" {
		if n, err := strconv.ParseInt(s, 10, 64); err == nil {
			seed = n
		}
	}
	t0 := time.Now()
	checks, err := loadChecks()
	if err != nil {
		fmt.Fprintln(os.Stderr, "checks.json:", err)
		os.Exit(2)
	}
	spec, ok := checks[*id]
	if !ok {
		fmt.Fprintln(os.Stderr, "unknown property", *id)
		os.Exit(2)
	}
	nativeBin, err := buildNative(false)
	if err != nil {
		fmt.Fprintln(os.Stderr, err)
		fmt.Printf("ERROR property=%s cannot build native harness against /repo (not a verdict)\n", *id)
		os.Exit(2)
	}
	env, err := LoadEnv(filepath.Join(verifDir, "harness"), []string{"."})
	if err != nil {
		fmt.Fprintln(os.Stderr, "load:", err)
		fmt.Printf("ERROR property=%s cannot load /repo into go/ssa (not a verdict)\n", *id)
		os.Exit(2)
	}
	known := loadKnown()
	if err := calibrate(env, nativeBin); err != nil {
		fmt.Fprintln(os.Stderr, "calibrate:", err)
		fmt.Printf("ERROR property=%s native calibration failed (not a verdict)\n", *id)
		os.Exit(2)
	}

	var reports []harnessReport
	fnSet := map[string]int64{}
	intrSet := map[string]int{}
	var allSamples []interface{}
	totalPaths, totalValidated, totalMismatch := 0, 0, 0
	var totalSteps int64
	totalInconc := 0
	violationsOut := 0
	knownPrinted := map[string]bool{}
	obligations, discharged := 0, 0
	var violLines []string
	crossSessionsN, crossQueries, crossDisagree, crossProblems := 0, 0, 0, 0

	for _, hs := range spec.Harnesses {
		if *only != "" && hs.Name != *only {
			continue
		}
		if len(hs.Tiers) > 0 {
			in := false
			for _, t := range hs.Tiers {
				in = in || t == *tier
			}
			if !in {
				continue
			}
		}
		params := hs.Quick
		if *tier == "thorough" && hs.Thorough != nil {
			params = hs.Thorough
		}
		cfg := &RunConfig{Workers: *workers, Unwind: 50000, MaxSteps: 20000000, TimeoutMs: 10000, Profile: true, Params: params, Seed: seed}
		if *tier == "thorough" {
			cfg.Unwind = 200000
			cfg.TimeoutMs = 60000
		}
		if v, ok := params["_unwind"]; ok {
			cfg.Unwind = v
		}
		if v, ok := params["_maxsteps"]; ok {
			cfg.MaxSteps = int64(v)
		}
		cfg.Budget = 600 * time.Second
		if *tier == "thorough" {
			cfg.Budget = 900 * time.Second
		}
		if v, ok := params["_budget_s"]; ok {
			cfg.Budget = time.Duration(v) * time.Second
		}
		cfg.SampleN = 40
		if *tier == "thorough" {
			cfg.SampleN = 300
		}
		if v, ok := params["_samples"]; ok {
			cfg.SampleN = v
		}
		if *tier == "thorough" {
			cfg.CrossN = 25
		}
		if v, ok := params["_cross"]; ok {
			cfg.CrossN = v
		}
		th := time.Now()
		ex, stats, err := Explore(env, *id, hs.Name, cfg)
		if err != nil {
			fmt.Fprintln(os.Stderr, "explore:", err)
			fmt.Printf("ERROR property=%s harness=%s engine failed: %v (not a verdict)\n", *id, hs.Name, err)
			os.Exit(2)
		}
		rep := harnessReport{Name: hs.Name, Params: params, Paths: ex.paths, PathsAborted: ex.pathsAborted, Steps: ex.steps,
			Asserts: map[string]int{"checked": ex.assertsChecked, "folded_true": ex.assertsFolded, "unsat": ex.assertsUnsat, "sat": ex.assertsSat, "unknown": ex.assertsUnknown},
			Reached: ex.reached, Queries: map[string]int{"total": stats.Queries, "sat": stats.Sat, "unsat": stats.Unsat, "unknown": stats.Unknown, "solver_errors": stats.SolverErrors},
			SolveTimeS: stats.SolveTime.Seconds(), Inconclusive: map[string]int{}, ForksBySite: topForks(ex.forksBySite, 8), Unexplored: ex.unexplored}
		for k, n := range ex.inconcKinds {
			if strings.HasPrefix(k, "(infeasible") {
				continue
			}
			rep.Inconclusive[k] = n
			totalInconc += n
		}
		if ex.unexplored > 0 {
			rep.Inconclusive["budget-unexplored"] = ex.unexplored
			totalInconc += ex.unexplored
		}
		if stats.SolverErrors > 0 {
			rep.Inconclusive["solver-error-lines"] = stats.SolverErrors
			totalInconc += stats.SolverErrors
		}
		for i, ic := range ex.inconclusive {
			if i < 5 {
				msg := ic.Msg
				if len(msg) > 1500 {
					msg = msg[:1500]
				}
				rep.InconcExamples = append(rep.InconcExamples, ic.Kind+": "+msg)
			}
		}
		for _, m := range hs.MustReach {
			if ex.reached[m] == 0 {
				rep.Vacuous = append(rep.Vacuous, m)
				totalInconc++
			}
		}
		for k, n := range stats.FnSteps {
			fnSet[k] += n
		}
		for k, n := range stats.Intrinsics {
			intrSet[k] += n
		}
		obligations += ex.assertsChecked
		discharged += ex.assertsFolded + ex.assertsUnsat

		// --- solver cross-check: recorded path sessions replayed on z3 5.1 and cvc5
		for _, cs := range ex.crossSessions {
			for _, other := range []string{"z3-new", "cvc5"} {
				ans, err := crossCheck(other, cs.Script, cfg.TimeoutMs)
				crossQueries += len(cs.Answers)
				if err != nil {
					crossProblems++
					continue
				}
				if len(ans) != len(cs.Answers) {
					crossProblems++
					fmt.Printf("INCONCLUSIVE property=%s harness=%s solver cross-check: %s answered %d of %d queries\n", *id, hs.Name, other, len(ans), len(cs.Answers))
					continue
				}
				for i := range ans {
					if ans[i] != cs.Answers[i] && ans[i] != "unknown" && ans[i] != "timeout" && cs.Answers[i] != "unknown" {
						crossDisagree++
						fmt.Printf("INCONCLUSIVE property=%s harness=%s solver cross-check: z3 says %s, %s says %s (query %d of a recorded path)\n", *id, hs.Name, cs.Answers[i], other, ans[i], i)
					}
				}
			}
			crossSessionsN++
		}
		totalInconc += crossDisagree + crossProblems

		// --- translator validation on sampled paths
		var jobs []nativeJob
		for _, s := range ex.valSamples {
			jobs = append(jobs, nativeJob{Harness: hs.Name, Inputs: s.Inputs, Params: params})
		}
		res, err := runNative(nativeBin, jobs)
		if err != nil {
			fmt.Fprintln(os.Stderr, err)
			fmt.Printf("ERROR property=%s native validation run failed (not a verdict)\n", *id)
			os.Exit(2)
		}
		mismatchHarness := false
		for i, r := range res {
			s := ex.valSamples[i]
			rep.Validated++
			if r.Spurious != "" {
				rep.Mismatches++
				fmt.Printf("INCONCLUSIVE property=%s harness=%s translator-mismatch: native run rejected engine inputs (%s) inputs=%s\n", *id, hs.Name, r.Spurious, jsonStr(s.Inputs))
				mismatchHarness = true
				continue
			}
			if d := firstDiff(s.Obs, r.Obs); d != "" {
				rep.Mismatches++
				mismatchHarness = true
				if rep.Mismatches <= 3 {
					fmt.Printf("INCONCLUSIVE property=%s harness=%s translator-mismatch: %s inputs=%s\n", *id, hs.Name, d, jsonStr(s.Inputs))
				}
			}
		}
		totalValidated += rep.Validated
		totalMismatch += rep.Mismatches
		totalInconc += rep.Mismatches

		// --- counterexamples: replay natively, then known-findings
		sort.Slice(ex.violations, func(i, j int) bool { return ex.violations[i].Assert < ex.violations[j].Assert })
		for _, v := range ex.violations {
			dir := filepath.Join(verifDir, "replays", *id)
			os.MkdirAll(dir, 0o755)
			file := filepath.Join(dir, fmt.Sprintf("%s-%s-%d.json", hs.Name, sanitize(v.Assert), len(violLines)+len(knownPrinted)))
			w := map[string]interface{}{"property": *id, "harness": hs.Name, "assert": v.Assert, "tier": *tier, "params": params, "inputs": v.Inputs, "engine_message": v.Msg, "engine_observations": v.Obs}
			replayBin := nativeBin
			if hs.Race {
				rb, rerr := buildNative(true)
				if rerr != nil {
					fmt.Printf("INCONCLUSIVE property=%s harness=%s assert=%s cannot build the race-detector replay binary: %v\n", *id, hs.Name, v.Assert, rerr)
					totalInconc++
					continue
				}
				replayBin = rb
			}
			nres, err := runNative(replayBin, []nativeJob{{Harness: hs.Name, Inputs: v.Inputs, Params: params}})
			if err != nil {
				fmt.Printf("INCONCLUSIVE property=%s harness=%s assert=%s native replay failed to run: %v\n", *id, hs.Name, v.Assert, err)
				totalInconc++
				continue
			}
			reproduced := false
			nmsg := ""
			for _, f := range nres[0].Failures {
				if f.ID == v.Assert || (f.ID == "*data-race*" && hs.Race) {
					reproduced = true
					nmsg = f.Msg
				}
			}
			if hs.Race && !reproduced && strings.HasPrefix(v.Assert, "no-shared-write") {
				// a write to shared memory that the race detector did not catch in this
				// run (schedules are not enumerated natively): keep it as inconclusive
			}
			w["native_failures"] = nres[0].Failures
			w["native_observations"] = nres[0].Obs
			w["native_spurious"] = nres[0].Spurious
			if !reproduced {
				fmt.Printf("INCONCLUSIVE property=%s harness=%s assert=%s counterexample does not reproduce natively (engine/stub imprecision) inputs=%s native=%s\n", *id, hs.Name, v.Assert, jsonStr(v.Inputs), jsonStr(nres[0].Failures)+nres[0].Spurious)
				totalInconc++
				rep.Inconclusive["non-reproducing-counterexample"]++
				continue
			}
			if mismatchHarness {
				// still report: it reproduces natively, which is independent of the engine
			}
			// known finding?
			kf := matchKnown(known, *id, v.Assert)
			if kf != nil {
				key := *id + "/" + v.Assert
				if !knownPrinted[key] {
					knownPrinted[key] = true
					fmt.Printf("KNOWN-FINDING: property=%s assert=%s %s (witness inputs=%s)\n", *id, v.Assert, kf.What, jsonStr(v.Inputs))
				}
				continue
			}
			wb, _ := json.MarshalIndent(w, "", " ")
			os.WriteFile(file, wb, 0o644)
			violationsOut++
			line := fmt.Sprintf("VIOLATION property=%s replay=%s", *id, file)
			violLines = append(violLines, line)
			fmt.Println(line)
			fmt.Printf("  harness=%s assert=%s %s %s\n  inputs=%s\n", hs.Name, v.Assert, firstLine(v.Msg), nmsg, jsonStr(v.Inputs))
		}
		rep.WallS = time.Since(th).Seconds()
		totalPaths += ex.paths
		totalSteps += ex.steps
		for _, s := range ex.samples {
			s["harness"] = hs.Name
			allSamples = append(allSamples, s)
		}
		reports = append(reports, rep)
		fmt.Printf("harness %s: paths=%d aborted=%d steps=%d obligations=%d (folded %d, unsat %d, sat %d, unknown %d) queries=%d solver=%.1fs validated=%d mismatches=%d inconclusive=%v wall=%.1fs\n",
			hs.Name, ex.paths, ex.pathsAborted, ex.steps, ex.assertsChecked, ex.assertsFolded, ex.assertsUnsat, ex.assertsSat, ex.assertsUnknown, stats.Queries, stats.SolveTime.Seconds(), rep.Validated, rep.Mismatches, rep.Inconclusive, rep.WallS)
		for _, e := range rep.InconcExamples {
			fmt.Printf("  inconclusive e.g. %s\n", firstLines(e, 12))
		}
		for _, vac := range rep.Vacuous {
			fmt.Printf("INCONCLUSIVE property=%s harness=%s vacuous: assert %s never reached\n", *id, hs.Name, vac)
		}
	}

	// functions of /repo actually executed
	var repoFns []string
	for k, n := range fnSet {
		if strings.Contains(k, "github.com/cockroachdb/errors") {
			repoFns = append(repoFns, fmt.Sprintf("%s:%d", k, n))
		}
	}
	sort.Strings(repoFns)
	var intr []string
	for k := range intrSet {
		if !strings.Contains(k, "verifh/sym") {
			intr = append(intr, k)
		}
	}
	sort.Strings(intr)
	if len(allSamples) == 0 {
		allSamples = append(allSamples, map[string]interface{}{"note": "no completed path"})
	}
	if len(allSamples) > 8 {
		allSamples = allSamples[:8]
	}
	assumptions := append([]string{}, spec.Assumptions...)
	assumptions = append(assumptions,
		"go/ssa translation of /repo's working tree; engine instruction semantics (checked by native translator validation on sampled paths)",
		"leaf intrinsics hit (modelled, not executed from source): "+strings.Join(intr, ", "),
		"package init: best-effort for os/syscall/net/time/sentry/proto (skipped instructions: "+strings.Join(env.initSkipSummary(), "; ")+")",
		"z3 4.8.12 decides every non-folded branch and assertion; unknown/timeouts are reported as inconclusive")
	for _, o := range spec.Outside {
		assumptions = append(assumptions, "outside the claim: "+o)
	}
	ev := map[string]interface{}{
		"property_id": *id, "tier": *tier, "seed": seed, "level": "model_checking",
		"coverage": map[string]interface{}{
			"states": max(totalPaths, 0), "transitions": totalSteps, "traces_validated_against_impl": totalValidated,
			"samples": allSamples, "obligations": obligations, "discharged": discharged,
			"bounds": spec.Bounds, "harnesses": reports, "functions_encoded": repoFns, "functions_encoded_count": len(repoFns),
			"inconclusive_total": totalInconc, "translator_mismatches": totalMismatch,
			"solver_cross_check": map[string]interface{}{"recorded_path_sessions": crossSessionsN, "queries_replayed_on_z3_5.1_and_cvc5": crossQueries, "disagreements": crossDisagree, "solver_failures": crossProblems},
			"explanation": "bounded symbolic execution of the real code (go/ssa of /repo's working tree) with z3 deciding every feasible branch and every assertion; states = completed symbolic paths, transitions = SSA instructions executed, traces_validated = sampled path models re-run natively with identical observations",
		},
		"assumptions": assumptions,
		"wall_s":      time.Since(t0).Seconds(),
		"violations":  violationsOut,
		"known_findings": sortedBoolKeys(knownPrinted),
		"load_s":      env.loadTime.Seconds(),
	}
	if !*noEvidence {
		os.MkdirAll(filepath.Join(verifDir, "evidence"), 0o755)
		b, _ := json.MarshalIndent(ev, "", " ")
		os.WriteFile(filepath.Join(verifDir, "evidence", *id+".json"), b, 0o644)
	}
	fmt.Printf("SUMMARY property=%s tier=%s paths=%d obligations=%d discharged=%d validated=%d mismatches=%d inconclusive=%d violations=%d known=%d wall=%.1fs\n",
		*id, *tier, totalPaths, obligations, discharged, totalValidated, totalMismatch, totalInconc, violationsOut, len(knownPrinted), time.Since(t0).Seconds())
	if violationsOut > 0 {
		os.Exit(1)
	}
	os.Exit(0)
}

func isFlagSet(fs *flag.FlagSet, name string) bool {
	set := false
	fs.Visit(func(f *flag.Flag) {
		if f.Name == name {
			set = true
		}
	})
	return set
}

func matchKnown(known []KnownFinding, prop, assert string) *KnownFinding {
	for i := range known {
		k := &known[i]
		if k.Status == "known" && k.Property == prop && k.Assert == assert {
			return k
		}
	}
	return nil
}

func sanitize(s string) string {
	var sb strings.Builder
	for _, r := range s {
		if r >= 'a' && r <= 'z' || r >= 'A' && r <= 'Z' || r >= '0' && r <= '9' || r == '-' || r == '_' {
			sb.WriteRune(r)
		} else {
			sb.WriteByte('_')
		}
	}
	return sb.String()
}

func firstDiff(a, b []string) string {
	n := len(a)
	if len(b) < n {
		n = len(b)
	}
	for i := 0; i < n; i++ {
		if a[i] != b[i] {
			return fmt.Sprintf("observation %d differs: engine %q native %q", i, a[i], b[i])
		}
	}
	if len(a) != len(b) {
		return fmt.Sprintf("observation count differs: engine %d native %d", len(a), len(b))
	}
	return ""
}

func jsonStr(v interface{}) string {
	b, _ := json.Marshal(v)
	return string(b)
}

func firstLine(s string) string {
	if i := strings.Index(s, "\n"); i >= 0 {
		return s[:i]
	}
	return s
}

func firstLines(s string, n int) string {
	l := strings.Split(s, "\n")
	if len(l) > n {
		l = l[:n]
	}
	return strings.Join(l, "\n")
}

func topForks(m map[string]int, n int) map[string]int {
	type kv struct {
		k string
		v int
	}
	var l []kv
	for k, v := range m {
		l = append(l, kv{k, v})
	}
	sort.Slice(l, func(i, j int) bool { return l[i].v > l[j].v })
	r := map[string]int{}
	for i := 0; i < len(l) && i < n; i++ {
		r[l[i].k] = l[i].v
	}
	return r
}

func sortedBoolKeys(m map[string]bool) []string {
	r := []string{}
	for k := range m {
		r = append(r, k)
	}
	sort.Strings(r)
	return r
}

func cmdReplay(args []string) {
	if len(args) < 1 {
		fmt.Fprintln(os.Stderr, "usage: symgo replay <witness.json>")
		os.Exit(2)
	}
	b, err := os.ReadFile(args[0])
	if err != nil {
		fmt.Fprintln(os.Stderr, err)
		os.Exit(2)
	}
	var w struct {
		Property string                 `json:"property"`
		Harness  string                 `json:"harness"`
		Assert   string                 `json:"assert"`
		Inputs   map[string]interface{} `json:"inputs"`
		Params   map[string]int         `json:"params"`
	}
	if err := json.Unmarshal(b, &w); err != nil {
		fmt.Fprintln(os.Stderr, err)
		os.Exit(2)
	}
	bin, err := buildNative(false)
	if err != nil {
		fmt.Fprintln(os.Stderr, err)
		os.Exit(2)
	}
	res, err := runNative(bin, []nativeJob{{Harness: w.Harness, Inputs: w.Inputs, Params: w.Params}})
	if err != nil {
		fmt.Fprintln(os.Stderr, err)
		os.Exit(2)
	}
	r := res[0]
	for _, o := range r.Obs {
		fmt.Println("OBS", o)
	}
	failed := false
	for _, f := range r.Failures {
		fmt.Printf("FAILED assert=%s %s\n", f.ID, f.Msg)
		if f.ID == w.Assert {
			failed = true
		}
	}
	if r.Spurious != "" {
		fmt.Println("SPURIOUS", r.Spurious)
	}
	if failed {
		fmt.Printf("VIOLATION property=%s replay=%s\n", w.Property, args[0])
		os.Exit(1)
	}
	fmt.Println("not reproduced")
}

// calibrate measures, on the native runner, the frames that lie below a
// harness function on the goroutine stack, so that the engine's call-stack
// model reproduces them.
func calibrate(env *Env, nativeBin string) error {
	res, err := runNative(nativeBin, []nativeJob{{Harness: "H_Calibrate", Inputs: map[string]interface{}{}}})
	if err != nil {
		return err
	}
	env.bottomFrames = nil
	for _, o := range res[0].Obs {
		if !strings.HasPrefix(o, "frame=") {
			continue
		}
		parts := strings.Split(o[6:], "|")
		if len(parts) != 3 {
			continue
		}
		line, _ := strconv.Atoi(parts[2])
		env.bottomFrames = append(env.bottomFrames, SynthFrame{Func: parts[0], File: parts[1], Line: line})
	}
	if len(env.bottomFrames) == 0 {
		return fmt.Errorf("no bottom frames measured")
	}
	return nil
}
