package main

// Path state, decisions, obligations and the stateless-forking explorer.

import (
	"encoding/base64"
	"fmt"
	"sort"
	"strings"
	"sync"
	"time"
)

type workItem struct {
	prefix []int64
	model  []uint64
}

type inputRec struct {
	Name  string
	Kind  string // choice | byte | str | int
	Terms []*Term
	Val   int64 // for choice
	W     uint8
}

type Violation struct {
	Property string
	Harness  string
	Assert   string
	Msg      string
	Inputs   map[string]interface{}
	Path     []int64
	Obs      []string
	Native   string // native replay verdict
	File     string
}

type obsRec struct {
	Name string
	Val  Str
}

type valSample struct {
	Inputs map[string]interface{}
	Obs    []string
}

type Inconclusive struct {
	Kind string
	Msg  string
	Path []int64
}

type pathState struct {
	ex      *Explorer
	prefix  []int64
	preModel []uint64
	pos     int
	trace   []int64
	known   map[*Term]bool
	model   map[*Term]uint64
	modelOK bool
	frozen  bool
	pcLen   int

	inputs   []inputRec
	names    map[string]int
	obs      []obsRec
	recovered []*targetPanic
	sharedWrites []string
	reached  map[string]int
	concrete map[string]interface{} // witness-driven (concrete) mode

	forks int
	callersHook func(in *Interp, fr *frame, skip *Term, nframes int)
	dom      map[*Term]*byteSet
	rel      map[*Term]bool
	varsMemo map[*Term][]*Term
	domDecided int
}

type Explorer struct {
	mu     sync.Mutex
	cond   *sync.Cond
	stack  []workItem
	active int
	stopped bool

	harness   string
	property  string
	deadline  time.Time
	maxPaths  int

	// results
	paths       int
	pathsAborted int
	violations  []*Violation
	violKeys    map[string]int
	inconclusive []Inconclusive
	inconcKinds map[string]int
	reached     map[string]int
	assertsChecked int
	assertsFolded  int
	assertsUnsat   int
	assertsSat     int
	assertsUnknown int
	forksBySite map[string]int
	steps       int64
	samples     []map[string]interface{}
	sharedWrites map[string]int
	obsSample   [][]string
	valSamples  []valSample
	sampleN     int
	seed        int64
	unexplored  int
	crossSessions []crossSession
	crossWanted, crossSeen int
}

func NewExplorer(property, harness string) *Explorer {
	ex := &Explorer{harness: harness, property: property, violKeys: map[string]int{}, inconcKinds: map[string]int{},
		reached: map[string]int{}, forksBySite: map[string]int{}, sharedWrites: map[string]int{}}
	ex.cond = sync.NewCond(&ex.mu)
	ex.stack = []workItem{{}}
	return ex
}

func (ex *Explorer) push(it workItem) {
	ex.mu.Lock()
	ex.stack = append(ex.stack, it)
	ex.mu.Unlock()
	ex.cond.Signal()
}

// pop blocks until an item is available or exploration is complete.
func (ex *Explorer) pop() (workItem, bool) {
	ex.mu.Lock()
	defer ex.mu.Unlock()
	for {
		if ex.stopped {
			return workItem{}, false
		}
		if !ex.deadline.IsZero() && time.Now().After(ex.deadline) || (ex.maxPaths > 0 && ex.paths >= ex.maxPaths) {
			ex.unexplored += len(ex.stack)
			ex.stack = nil
			ex.stopped = true
			ex.cond.Broadcast()
			return workItem{}, false
		}
		if n := len(ex.stack); n > 0 {
			it := ex.stack[n-1]
			ex.stack = ex.stack[:n-1]
			ex.active++
			return it, true
		}
		if ex.active == 0 {
			ex.cond.Broadcast()
			return workItem{}, false
		}
		ex.cond.Wait()
	}
}

func (ex *Explorer) done() {
	ex.mu.Lock()
	ex.active--
	ex.mu.Unlock()
	ex.cond.Broadcast()
}

// ---------------------------------------------------------------------------

func newPathState(ex *Explorer, it workItem) *pathState {
	ps := &pathState{ex: ex, prefix: it.prefix, preModel: it.model, known: map[*Term]bool{}, names: map[string]int{}, reached: map[string]int{}}
	if len(it.prefix) == 0 {
		ps.model = map[*Term]uint64{}
		ps.modelOK = true
	}
	return ps
}

func (ps *pathState) setKnown(in *Interp, c *Term, v bool) {
	ps.known[c] = v
	ps.known[in.tf.Not(c)] = !v
}

func (ps *pathState) assertLit(in *Interp, c *Term, v bool) {
	lit := c
	if !v {
		lit = in.tf.Not(c)
	}
	in.solver.Assert(lit)
	ps.pcLen++
	ps.noteLiteral(lit)
}

func (ps *pathState) installPreModel(in *Interp) {
	if ps.preModel != nil && ps.pos == len(ps.prefix) {
		m := map[*Term]uint64{}
		for i, v := range in.tf.Vars {
			if i < len(ps.preModel) {
				m[v] = ps.preModel[i]
			}
		}
		// vars created after the model was taken are unconstrained only if no
		// assumption was made on them; re-validate lazily through ensureModel.
		if len(in.tf.Vars) == len(ps.preModel) {
			ps.model = m
			ps.modelOK = true
		}
		ps.preModel = nil
	}
}

func (ps *pathState) ensureModel(in *Interp) {
	if ps.modelOK {
		return
	}
	r := in.solver.Check()
	switch r {
	case Sat:
		ps.model = in.solver.Model(in.tf.Vars)
		ps.modelOK = true
	case Unsat:
		panic(in.abort("infeasible", "path condition unsatisfiable"))
	default:
		panic(in.abort("solver-unknown", "no model for path condition"))
	}
}

func (ps *pathState) modelVec(in *Interp, m map[*Term]uint64) []uint64 {
	r := make([]uint64, len(in.tf.Vars))
	for i, v := range in.tf.Vars {
		r[i] = m[v]
	}
	return r
}

// checkWithModel checks PC ∧ lit; on Sat returns the model.
func (ps *pathState) checkWithModel(in *Interp, lit *Term) (SatResult, map[*Term]uint64) {
	if lit.IsFalse() {
		return Unsat, nil
	}
	s := in.solver
	s.Push()
	s.Assert(lit)
	r := s.Check()
	var m map[*Term]uint64
	if r == Sat {
		m = s.Model(in.tf.Vars)
	}
	s.Pop()
	return r, m
}

func (ps *pathState) decideBool(in *Interp, c *Term) bool {
	if ps.pos < len(ps.prefix) {
		d := ps.prefix[ps.pos]
		ps.pos++
		ps.trace = append(ps.trace, d)
		val := d&1 == 1
		if d&2 == 0 {
			ps.assertLit(in, c, val)
			ps.modelOK = false
		}
		ps.setKnown(in, c, val)
		ps.installPreModel(in)
		return val
	}
	// single-variable byte conditions are decided on the variable's domain
	if v, tset, fset, ok := ps.splitByDomain(c); ok {
		if tset.empty() || fset.empty() {
			val := fset.empty()
			d := int64(2)
			if val {
				d |= 1
			}
			ps.trace = append(ps.trace, d)
			ps.setKnown(in, c, val)
			ps.domDecided++
			return val
		}
		if !ps.rel[v] {
			// both outcomes are feasible (the domain of an unrelated variable is exact)
			ps.domDecided++
			ps.forks++
			alt := make([]int64, len(ps.trace)+1)
			copy(alt, ps.trace)
			alt[len(ps.trace)] = 0 // the false side
			it := workItem{prefix: alt}
			if ps.modelOK {
				m2 := ps.modelVec(in, ps.model)
				for i, x := range in.tf.Vars {
					if x == v {
						m2[i] = uint64(fset.first())
					}
				}
				it.model = m2
			}
			ps.ex.noteFork(in)
			ps.ex.push(it)
			ps.trace = append(ps.trace, 1)
			ps.assertLit(in, c, true)
			ps.setKnown(in, c, true)
			if ps.modelOK {
				ps.model[v] = uint64(tset.first())
			}
			return true
		}
	}
	ps.ensureModel(in)
	mv := c.Eval(ps.model, map[*Term]uint64{}) != 0
	otherLit := c
	if mv {
		otherLit = in.tf.Not(c)
	}
	r, m := ps.checkWithModel(in, otherLit)
	if r == Unsat {
		d := int64(2)
		if mv {
			d |= 1
		}
		ps.trace = append(ps.trace, d)
		ps.setKnown(in, c, mv)
		return mv
	}
	// both sides feasible (or other side unknown: keep it, over-approximation)
	ps.forks++
	alt := make([]int64, len(ps.trace)+1)
	copy(alt, ps.trace)
	if !mv {
		alt[len(ps.trace)] = 1
	}
	it := workItem{prefix: alt}
	if m != nil {
		it.model = ps.modelVec(in, m)
	}
	ps.ex.noteFork(in)
	ps.ex.push(it)
	d := int64(0)
	if mv {
		d = 1
	}
	ps.trace = append(ps.trace, d)
	ps.assertLit(in, c, mv)
	ps.setKnown(in, c, mv)
	return mv
}

func (ex *Explorer) noteFork(in *Interp) {
	site := in.currentSite()
	ex.mu.Lock()
	ex.forksBySite[site]++
	ex.mu.Unlock()
}

// candidate picks the value a symbolic integer is concretised to next. The
// value is part of the decision trace so that re-execution does not depend on
// which model the solver happens to return.
func (ps *pathState) candidate(in *Interp, t *Term) uint64 {
	if ps.pos < len(ps.prefix) {
		c := uint64(ps.prefix[ps.pos])
		ps.pos++
		ps.trace = append(ps.trace, int64(c))
		ps.installPreModel(in)
		return c
	}
	ps.ensureModel(in)
	c := t.Eval(ps.model, map[*Term]uint64{})
	ps.trace = append(ps.trace, int64(c))
	return c
}

// choose is a free n-way choice (v.Choice).
func (ps *pathState) choose(in *Interp, n int) int {
	if n <= 1 {
		return 0
	}
	if ps.pos < len(ps.prefix) {
		d := ps.prefix[ps.pos]
		ps.pos++
		ps.trace = append(ps.trace, d)
		ps.installPreModel(in)
		return int(d >> 2)
	}
	for k := n - 1; k >= 1; k-- {
		alt := make([]int64, len(ps.trace)+1)
		copy(alt, ps.trace)
		alt[len(ps.trace)] = int64(k << 2)
		it := workItem{prefix: alt}
		if ps.modelOK {
			it.model = ps.modelVec(in, ps.model)
		}
		ps.ex.push(it)
	}
	ps.trace = append(ps.trace, 0)
	return 0
}

// assume adds c to the path condition; an infeasible assumption ends the path.
func (ps *pathState) assume(in *Interp, c *Term) {
	if c.IsConst() {
		if c.C == 0 {
			panic(in.abort("infeasible", "assumption false"))
		}
		return
	}
	if v, ok := ps.known[c]; ok {
		if !v {
			panic(in.abort("infeasible", "assumption contradicts path"))
		}
		return
	}
	if _, tset, _, ok := ps.splitByDomain(c); ok && ps.pos >= len(ps.prefix) {
		if tset.empty() {
			panic(in.abort("infeasible", "assumption unsatisfiable on the byte domain"))
		}
		vs := ps.termVars(c)
		if !ps.rel[vs[0]] {
			if ps.modelOK && c.Eval(ps.model, map[*Term]uint64{}) == 0 {
				ps.model[vs[0]] = uint64(tset.first())
			}
			ps.assertLit(in, c, true)
			ps.setKnown(in, c, true)
			return
		}
	}
	if ps.pos < len(ps.prefix) {
		// replaying a prefix: this assumption was checked when the parent path ran
		ps.assertLit(in, c, true)
		ps.setKnown(in, c, true)
		ps.modelOK = false
		return
	}
	if ps.modelOK && c.Eval(ps.model, map[*Term]uint64{}) != 0 {
		ps.assertLit(in, c, true)
		ps.setKnown(in, c, true)
		return
	}
	r, m := ps.checkWithModel(in, c)
	switch r {
	case Unsat:
		panic(in.abort("infeasible", "assumption unsatisfiable"))
	case Sat:
		ps.model = m
		ps.modelOK = true
	default:
		ps.modelOK = false
	}
	ps.assertLit(in, c, true)
	ps.setKnown(in, c, true)
}

// ---------------------------------------------------------------------------
// inputs

func (ps *pathState) uniqueName(name string) string {
	n := ps.names[name]
	ps.names[name] = n + 1
	if n == 0 {
		return name
	}
	return fmt.Sprintf("%s#%d", name, n)
}

func (ps *pathState) witness(in *Interp, m map[*Term]uint64) map[string]interface{} {
	w := map[string]interface{}{}
	for _, r := range ps.inputs {
		switch r.Kind {
		case "choice":
			w[r.Name] = r.Val
		case "str":
			b := make([]byte, len(r.Terms))
			for i, t := range r.Terms {
				b[i] = byte(t.Eval(m, map[*Term]uint64{}))
			}
			w[r.Name] = map[string]interface{}{"b64": base64.StdEncoding.EncodeToString(b), "text": fmt.Sprintf("%q", string(b))}
		case "int":
			v := r.Terms[0].Eval(m, map[*Term]uint64{})
			w[r.Name] = sext64(v, r.W)
		case "uint":
			w[r.Name] = r.Terms[0].Eval(m, map[*Term]uint64{})
		}
	}
	return w
}

// ---------------------------------------------------------------------------
// obligations

func (ps *pathState) assertObl(in *Interp, id string, c *Term) {
	ex := ps.ex
	ps.reached[id]++
	if c.IsConst() && c.C != 0 {
		ex.mu.Lock()
		ex.assertsChecked++
		ex.assertsFolded++
		ex.mu.Unlock()
		return
	}
	if v, ok := ps.known[c]; ok && v {
		ex.mu.Lock()
		ex.assertsChecked++
		ex.assertsFolded++
		ex.mu.Unlock()
		return
	}
	var r SatResult
	var m map[*Term]uint64
	if c.IsConst() {
		ps.ensureModel(in)
		r, m = Sat, ps.model
	} else {
		r, m = ps.checkWithModel(in, in.tf.Not(c))
	}
	ex.mu.Lock()
	ex.assertsChecked++
	switch r {
	case Unsat:
		ex.assertsUnsat++
	case Sat:
		ex.assertsSat++
	default:
		ex.assertsUnknown++
	}
	ex.mu.Unlock()
	switch r {
	case Unsat:
		return
	case Sat:
		ex.addViolation(in, ps, id, "assertion can fail", m)
		// continue under the assertion where it can hold; where it cannot, continue unconstrained
		func() {
			defer func() {
				if r := recover(); r != nil {
					if e, ok := r.(*engineAbort); !ok || e.Kind != "infeasible" {
						panic(r)
					}
				}
			}()
			ps.assume(in, c)
		}()
	default:
		ex.addInconclusive(Inconclusive{Kind: "solver-unknown", Msg: "assert " + id, Path: append([]int64(nil), ps.trace...)})
	}
}

func (ex *Explorer) addViolation(in *Interp, ps *pathState, id, msg string, m map[*Term]uint64) {
	w := ps.witness(in, m)
	ex.mu.Lock()
	defer ex.mu.Unlock()
	ex.violKeys[id]++
	if ex.violKeys[id] > 3 {
		return // keep at most 3 witnesses per assert id
	}
	ex.violations = append(ex.violations, &Violation{Property: ex.property, Harness: ex.harness, Assert: id, Msg: msg, Inputs: w,
		Path: append([]int64(nil), ps.trace...), Obs: ps.evalObs(in, m)})
}

func (ex *Explorer) addInconclusive(ic Inconclusive) {
	ex.mu.Lock()
	defer ex.mu.Unlock()
	ex.inconcKinds[ic.Kind]++
	if len(ex.inconclusive) < 50 {
		ex.inconclusive = append(ex.inconclusive, ic)
	}
}

func (ps *pathState) noteSharedWrite(in *Interp, c *Cell) {
	if in.lockDepth > 0 {
		return
	}
	ps.sharedWrites = append(ps.sharedWrites, in.currentSite())
}

func (ps *pathState) noteSharedMapWrite(in *Interp, m *Map) {
	if in.lockDepth > 0 {
		return
	}
	ps.sharedWrites = append(ps.sharedWrites, "map:"+in.currentSite())
}

func (in *Interp) currentSite() string {
	fr := in.curFrame
	for fr != nil && fr.cur == nil {
		fr = fr.caller
	}
	if fr == nil {
		return "?"
	}
	pos := in.prog.Fset.Position(fr.cur.Pos())
	file := pos.Filename
	if i := strings.LastIndex(file, "/"); i >= 0 {
		if j := strings.LastIndex(file[:i], "/"); j >= 0 {
			file = file[j+1:]
		}
	}
	return fmt.Sprintf("%s:%d(%s)", file, pos.Line, fr.fn.Name())
}

func sortedKeys(m map[string]int) []string {
	var r []string
	for k := range m {
		r = append(r, k)
	}
	sort.Strings(r)
	return r
}

// evalObs evaluates the recorded observations under model m.
func (ps *pathState) evalObs(in *Interp, m map[*Term]uint64) []string {
	r := make([]string, 0, len(ps.obs))
	memo := map[*Term]uint64{}
	for _, o := range ps.obs {
		if o.Val.B == nil {
			r = append(r, o.Name+"="+o.Val.S)
			continue
		}
		b := make([]byte, len(o.Val.B))
		for i, t := range o.Val.B {
			b[i] = byte(t.Eval(m, memo))
		}
		r = append(r, o.Name+"="+string(b))
	}
	return r
}
