package main

import (
	"fmt"
	"go/constant"
	"go/token"
	"go/types"
	"math"
	"strings"
	"unicode/utf8"

	"golang.org/x/tools/go/ssa"
)

func (in *Interp) constValue(c *ssa.Const) (Value, bool) {
	t := c.Type()
	if c.Value == nil {
		// zero value
		switch t.Underlying().(type) {
		case *types.Struct, *types.Array:
			return in.zero(t), false
		}
		if tp, ok := t.(*types.TypeParam); ok {
			panic(in.abort("unsupported", "const of type param "+tp.String()))
		}
		if b, ok := t.Underlying().(*types.Basic); ok && b.Kind() == types.UntypedNil {
			return nil, true
		}
		return in.zero(t), true
	}
	b, ok := t.Underlying().(*types.Basic)
	if !ok {
		panic(in.abort("internal", "const of type "+t.String()))
	}
	switch {
	case b.Info()&types.IsBoolean != 0:
		return in.tf.Bool(constant.BoolVal(c.Value)), true
	case b.Info()&types.IsInteger != 0:
		w := in.intWidth(b)
		v := constant.ToInt(c.Value)
		if i, exact := constant.Int64Val(v); exact {
			return in.tf.Const(w, uint64(i)), true
		}
		u, _ := constant.Uint64Val(v)
		return in.tf.Const(w, u), true
	case b.Info()&types.IsString != 0:
		if c.Value.Kind() == constant.String {
			return mkStr(constant.StringVal(c.Value)), true
		}
		// string(rune) constant
		i, _ := constant.Int64Val(constant.ToInt(c.Value))
		return mkStr(string(rune(i))), true
	case b.Info()&types.IsFloat != 0:
		f, _ := constant.Float64Val(c.Value)
		if b.Kind() == types.Float32 {
			f = float64(float32(f))
		}
		return f, true
	case b.Info()&types.IsComplex != 0:
		re, _ := constant.Float64Val(constant.Real(c.Value))
		im, _ := constant.Float64Val(constant.Imag(c.Value))
		return complex(re, im), true
	}
	panic(in.abort("internal", "const "+c.String()))
}

// ---------------------------------------------------------------------------

func (in *Interp) unop(fr *frame, instr *ssa.UnOp, x Value) Value {
	switch instr.Op {
	case token.MUL: // load
		if sp, ok := x.(SymElemPtr); ok {
			return in.loadSymElem(sp)
		}
		return in.load(in.asPtr(x))
	case token.SUB:
		switch x := x.(type) {
		case *Term:
			return in.tf.Neg(x)
		case float64:
			if b, ok := instr.Type().Underlying().(*types.Basic); ok && b.Kind() == types.Float32 {
				return float64(float32(-x))
			}
			return -x
		case complex128:
			return -x
		}
	case token.NOT:
		return in.tf.Not(x.(*Term))
	case token.XOR:
		return in.tf.BNot(x.(*Term))
	case token.ARROW:
		ch, _ := x.(*Chan)
		if ch != nil && len(ch.buf) > 0 {
			v := ch.buf[0]
			ch.buf = ch.buf[1:]
			if instr.CommaOk {
				return Tuple{v, tTrue}
			}
			return v
		}
		if ch != nil && len(in.goq) > 0 {
			// the receive would block: the pending goroutines run first
			in.runPendingGo(fr)
			if len(ch.buf) > 0 {
				v := ch.buf[0]
				ch.buf = ch.buf[1:]
				if instr.CommaOk {
					return Tuple{v, tTrue}
				}
				return v
			}
		}
		panic(in.abort("unsupported", "blocking channel receive in "+fr.fn.String()))
	}
	panic(in.abort("internal", fmt.Sprintf("unop %v on %T", instr.Op, x)))
}

func (in *Interp) binop(op token.Token, xt types.Type, x, y Value, yt types.Type) Value {
	f := in.tf
	switch op {
	case token.EQL:
		return in.valEq(x, y)
	case token.NEQ:
		return f.Not(in.valEq(x, y))
	}
	switch x := x.(type) {
	case *Term:
		y := y.(*Term)
		signed := isSigned(xt)
		if x.W == 0 {
			// booleans: only == and != (handled), but SSA may use &^ etc.? no.
			panic(in.abort("internal", "bool binop "+op.String()))
		}
		switch op {
		case token.ADD:
			return f.Bin(OAdd, x, y)
		case token.SUB:
			return f.Bin(OSub, x, y)
		case token.MUL:
			return f.Bin(OMul, x, y)
		case token.QUO, token.REM:
			if in.branch(f.Eq(y, f.Const(y.W, 0))) {
				panic(in.targetPanicStr("runtime error: integer divide by zero"))
			}
			if op == token.QUO {
				if signed {
					return f.Bin(OSDiv, x, y)
				}
				return f.Bin(OUDiv, x, y)
			}
			if signed {
				return f.Bin(OSRem, x, y)
			}
			return f.Bin(OURem, x, y)
		case token.AND:
			return f.Bin(OBAnd, x, y)
		case token.OR:
			return f.Bin(OBOr, x, y)
		case token.XOR:
			return f.Bin(OBXor, x, y)
		case token.AND_NOT:
			return f.Bin(OBAnd, x, f.BNot(y))
		case token.SHL, token.SHR:
			ysigned := isSigned(yt)
			if ysigned {
				if in.branch(f.Cmp(OSlt, y, f.Const(y.W, 0))) {
					panic(in.targetPanicStr("runtime error: negative shift amount"))
				}
			}
			var sh *Term
			if y.W > x.W {
				// large shift counts saturate
				big := f.Cmp(OUle, f.Const(y.W, uint64(x.W)), y)
				if big.IsConst() {
					if big.C != 0 {
						sh = f.Const(x.W, uint64(x.W))
					} else {
						sh = f.Conv(y, x.W, false)
					}
				} else {
					sh = f.Ite(big, f.Const(x.W, uint64(x.W)), f.Conv(y, x.W, false))
				}
			} else {
				sh = f.Conv(y, x.W, false)
			}
			if op == token.SHL {
				return f.Bin(OShl, x, sh)
			}
			if signed {
				return f.Bin(OAshr, x, sh)
			}
			return f.Bin(OLshr, x, sh)
		case token.LSS:
			if signed {
				return f.Cmp(OSlt, x, y)
			}
			return f.Cmp(OUlt, x, y)
		case token.LEQ:
			if signed {
				return f.Cmp(OSle, x, y)
			}
			return f.Cmp(OUle, x, y)
		case token.GTR:
			if signed {
				return f.Cmp(OSlt, y, x)
			}
			return f.Cmp(OUlt, y, x)
		case token.GEQ:
			if signed {
				return f.Cmp(OSle, y, x)
			}
			return f.Cmp(OUle, y, x)
		}
	case Str:
		y := y.(Str)
		switch op {
		case token.ADD:
			return strConcat(f, x, y)
		case token.LSS:
			return strLess(f, x, y)
		case token.GTR:
			return strLess(f, y, x)
		case token.LEQ:
			return f.Not(strLess(f, y, x))
		case token.GEQ:
			return f.Not(strLess(f, x, y))
		}
	case float64:
		y := y.(float64)
		f32 := false
		if b, ok := xt.Underlying().(*types.Basic); ok && b.Kind() == types.Float32 {
			f32 = true
		}
		r := func(v float64) Value {
			if f32 {
				return float64(float32(v))
			}
			return v
		}
		switch op {
		case token.ADD:
			return r(x + y)
		case token.SUB:
			return r(x - y)
		case token.MUL:
			return r(x * y)
		case token.QUO:
			return r(x / y)
		case token.LSS:
			return f.Bool(x < y)
		case token.LEQ:
			return f.Bool(x <= y)
		case token.GTR:
			return f.Bool(x > y)
		case token.GEQ:
			return f.Bool(x >= y)
		}
	case complex128:
		y := y.(complex128)
		switch op {
		case token.ADD:
			return x + y
		case token.SUB:
			return x - y
		case token.MUL:
			return x * y
		case token.QUO:
			return x / y
		}
	}
	panic(in.abort("internal", fmt.Sprintf("binop %v on %T,%T", op, x, y)))
}

// ---------------------------------------------------------------------------

func (in *Interp) conv(dst, src types.Type, x Value) Value {
	ud := dst.Underlying()
	us := src.Underlying()
	f := in.tf
	switch ud := ud.(type) {
	case *types.Basic:
		switch {
		case ud.Info()&types.IsInteger != 0:
			switch x := x.(type) {
			case *Term:
				return f.Conv(x, in.intWidth(ud), isSigned(us))
			case float64:
				w := in.intWidth(ud)
				if isSigned(ud) {
					return f.Const(w, uint64(int64(x)))
				}
				return f.Const(w, uint64(x))
			case UPtr:
				// uintptr(unsafe.Pointer)
				panic(in.abort("unsupported", "unsafe.Pointer -> uintptr"))
			}
		case ud.Info()&types.IsFloat != 0:
			switch x := x.(type) {
			case *Term:
				if !x.IsConst() {
					panic(in.abort("unsupported", "symbolic int -> float"))
				}
				var v float64
				if isSigned(us) {
					v = float64(x.SVal())
				} else {
					v = float64(x.C)
				}
				if ud.Kind() == types.Float32 {
					v = float64(float32(v))
				}
				return v
			case float64:
				if ud.Kind() == types.Float32 {
					return float64(float32(x))
				}
				return x
			}
		case ud.Info()&types.IsComplex != 0:
			if c, ok := x.(complex128); ok {
				return c
			}
		case ud.Info()&types.IsString != 0:
			switch x := x.(type) {
			case Str:
				return x
			case *Term:
				// string(rune)
				r := in.concInt(x, isSigned(us))
				if r < 0 || r > utf8.MaxRune {
					r = utf8.RuneError
				}
				return mkStr(string(rune(r)))
			case Slice:
				et := us.(*types.Slice).Elem().Underlying().(*types.Basic)
				if et.Kind() == types.Uint8 {
					b := make([]*Term, len(x.A))
					for i := range x.A {
						b[i] = x.A[i].V.(*Term)
					}
					return strFromTerms(b)
				}
				// []rune -> string
				var sb strings.Builder
				for i := range x.A {
					r := in.concInt(x.A[i].V.(*Term), true)
					sb.WriteRune(rune(r))
				}
				return mkStr(sb.String())
			}
		case ud.Kind() == types.UnsafePointer:
			switch x := x.(type) {
			case UPtr:
				return x
			case *Cell:
				return UPtr{P: x}
			case *Term:
				if x.IsConst() && x.C == 0 {
					return UPtr{}
				}
				panic(in.abort("unsupported", "uintptr -> unsafe.Pointer"))
			}
		}
	case *types.Slice:
		switch x := x.(type) {
		case Str:
			et := ud.Elem().Underlying().(*types.Basic)
			if et.Kind() == types.Uint8 {
				cells := in.newCells(x.Len())
				for i := range cells {
					cells[i].V = x.At(f, i)
				}
				return Slice{A: cells}
			}
			// []rune(string): decode concretely
			s := in.concStr(x)
			var cells []Cell
			for _, r := range s {
				cells = append(cells, Cell{V: f.Const(32, uint64(r)), Epoch: in.epoch})
			}
			return Slice{A: cells}
		case Slice:
			return x
		}
	case *types.Pointer:
		switch x := x.(type) {
		case UPtr:
			if x.P == nil {
				return (*Cell)(nil)
			}
			if c, ok := x.P.(*Cell); ok {
				// reinterpretation []byte <-> string through unsafe: snapshot view
				if eb, isB := ud.Elem().Underlying().(*types.Basic); isB && eb.Info()&types.IsString != 0 {
					if sl, isSl := c.V.(Slice); isSl {
						return in.newCell(strFromTerms(sliceBytes(sl)))
					}
				}
				if _, isSl := ud.Elem().Underlying().(*types.Slice); isSl {
					if st, isStr := c.V.(Str); isStr {
						cells := in.newCells(st.Len())
						for i := range cells {
							cells[i].V = st.At(f, i)
						}
						return in.newCell(Slice{A: cells})
					}
				}
				return c
			}
			panic(in.abort("unsupported", fmt.Sprintf("unsafe.Pointer(%T) -> %s", x.P, dst)))
		case *Cell:
			return x
		}
	}
	// identical underlying types etc.
	switch x.(type) {
	case Struct, Array, Slice, *Map, *Cell, Iface, *Closure, *ssa.Function, *Chan:
		return x
	}
	panic(in.abort("unsupported", fmt.Sprintf("conversion %s -> %s (%T)", src, dst, x)))
}

// concStr concretises a string (forks on feasible byte values if symbolic).
func (in *Interp) concStr(s Str) string {
	if s.B == nil {
		return s.S
	}
	b := make([]byte, len(s.B))
	for i, t := range s.B {
		b[i] = byte(in.concInt(t, false))
	}
	return string(b)
}

// ---------------------------------------------------------------------------

func (in *Interp) sliceOp(instr *ssa.Slice, x, lo, hi, max Value) Value {
	var n, c int
	switch x := x.(type) {
	case Str:
		n, c = x.Len(), x.Len()
	case Slice:
		n, c = len(x.A), cap(x.A)
	case *Cell:
		if x == nil {
			panic(in.targetPanicStr("runtime error: invalid memory address or nil pointer dereference"))
		}
		n = len(x.V.(Array))
		c = n
	default:
		panic(in.abort("internal", fmt.Sprintf("slice of %T", x)))
	}
	l, h, m := 0, n, c
	if lo != nil {
		l = int(in.concInt(lo.(*Term), true))
	}
	if hi != nil {
		h = int(in.concInt(hi.(*Term), true))
	}
	if max != nil {
		m = int(in.concInt(max.(*Term), true))
	}
	if _, isStr := x.(Str); isStr {
		if l < 0 || h < l || h > n {
			panic(in.targetPanicStr(fmt.Sprintf("runtime error: slice bounds out of range [%d:%d] with length %d", l, h, n)))
		}
		return x.(Str).Slice(l, h)
	}
	if l < 0 || h < l || m < h || m > c {
		panic(in.targetPanicStr(fmt.Sprintf("runtime error: slice bounds out of range [%d:%d:%d] with capacity %d", l, h, m, c)))
	}
	switch x := x.(type) {
	case Slice:
		if x.Nil {
			return Slice{Nil: true}
		}
		return Slice{A: x.A[:c][l:h:m]}
	case *Cell:
		arr := x.V.(Array)
		return Slice{A: []Cell(arr)[l:h:m]}
	}
	panic("unreachable")
}

// ---------------------------------------------------------------------------
// maps

func (in *Interp) newMap(kt types.Type) *Map {
	return &Map{KT: kt, Idx: map[string]int{}, Epoch: in.epoch}
}

func (in *Interp) keyString(k Value) (string, bool) {
	var sb strings.Builder
	ok := in.hashKey(k, &sb)
	return sb.String(), ok
}

// mapFind returns the entry for key k (forking on symbolic key comparisons).
func (in *Interp) mapFind(m *Map, k Value) *mapEntry {
	if i, ok := k.(Iface); ok && i.T != nil && !types.Comparable(i.T) {
		panic(in.targetPanicStr("runtime error: hash of unhashable type " + in.rtypeString(i.T)))
	}
	if m == nil {
		return nil
	}
	ks, conc := in.keyString(k)
	if conc {
		if i, ok := m.Idx[ks]; ok {
			return m.Entries[i]
		}
		if m.SymKeys == 0 {
			return nil
		}
	}
	for _, e := range m.Entries {
		if e.Deleted {
			continue
		}
		if conc {
			if _, ec := in.keyString(e.K); ec {
				continue // concrete entries already handled by the index
			}
		}
		if in.branch(in.valEq(e.K, k)) {
			return e
		}
	}
	return nil
}

func (in *Interp) noteMapWrite(m *Map, undo func()) {
	if in.ps != nil {
		if m.Epoch == 0 {
			in.undo = append(in.undo, undoEntry{fn: undo})
		}
		if in.ps.frozen && m.Epoch < in.epoch {
			in.ps.noteSharedMapWrite(in, m)
		}
	}
}

func (in *Interp) mapSet(m *Map, k, v Value) {
	if e := in.mapFind(m, k); e != nil {
		in.store(&e.V, v)
		return
	}
	e := &mapEntry{K: in.copyVal(k)}
	e.V = Cell{V: v, Epoch: in.epoch}
	ks, conc := in.keyString(k)
	idx := len(m.Entries)
	m.Entries = append(m.Entries, e)
	m.N++
	if conc {
		m.Idx[ks] = idx
	} else {
		m.SymKeys++
	}
	in.noteMapWrite(m, func() {
		m.Entries = m.Entries[:idx]
		m.N--
		if conc {
			delete(m.Idx, ks)
		} else {
			m.SymKeys--
		}
	})
}

func (in *Interp) mapDelete(m *Map, k Value) {
	e := in.mapFind(m, k)
	if e == nil {
		return
	}
	e.Deleted = true
	m.N--
	ks, conc := in.keyString(e.K)
	var oldIdx int
	if conc {
		oldIdx = m.Idx[ks]
		delete(m.Idx, ks)
	} else {
		m.SymKeys--
	}
	in.noteMapWrite(m, func() {
		e.Deleted = false
		m.N++
		if conc {
			m.Idx[ks] = oldIdx
		} else {
			m.SymKeys++
		}
	})
}

func (in *Interp) lookup(instr *ssa.Lookup, x, idx Value) Value {
	switch x := x.(type) {
	case *Map:
		var v Value
		ok := false
		if e := in.mapFind(x, idx); e != nil {
			v = in.copyVal(e.V.V)
			ok = true
		} else {
			v = in.zero(instr.X.Type().Underlying().(*types.Map).Elem())
		}
		if instr.CommaOk {
			return Tuple{v, in.tf.Bool(ok)}
		}
		return v
	case Str:
		i := in.indexCheck(idx.(*Term), x.Len(), isSigned(instr.Index.Type()))
		return x.At(in.tf, i)
	}
	panic(in.abort("internal", fmt.Sprintf("lookup on %T", x)))
}

// ---------------------------------------------------------------------------
// range iterators

type iterator interface {
	next(in *Interp) Value
}

type mapIter struct {
	m *Map
	i int
}

func (it *mapIter) next(in *Interp) Value {
	if it.m != nil {
		for it.i < len(it.m.Entries) {
			e := it.m.Entries[it.i]
			it.i++
			if e.Deleted {
				continue
			}
			return Tuple{tTrue, e.K, in.copyVal(e.V.V)}
		}
	}
	return Tuple{tFalse, nil, nil}
}

type strIter struct {
	s Str
	i int
}

func (it *strIter) next(in *Interp) Value {
	f := in.tf
	if it.i >= it.s.Len() {
		return Tuple{tFalse, f.Const(64, 0), f.Const(32, 0)}
	}
	pos := it.i
	if it.s.B == nil {
		r, sz := utf8.DecodeRuneInString(it.s.S[pos:])
		it.i += sz
		return Tuple{tTrue, f.Const(64, uint64(pos)), f.Const(32, uint64(r))}
	}
	b0 := it.s.B[pos]
	if b0.IsConst() && b0.C < 0x80 {
		it.i++
		return Tuple{tTrue, f.Const(64, uint64(pos)), f.Const(32, b0.C)}
	}
	if in.branch(f.Cmp(OUlt, b0, f.Const(8, 0x80))) {
		it.i++
		return Tuple{tTrue, f.Const(64, uint64(pos)), f.Conv(b0, 32, false)}
	}
	// multi-byte: concretise the lead byte and the needed continuation bytes
	end := pos + 4
	if end > it.s.Len() {
		end = it.s.Len()
	}
	buf := make([]byte, 0, 4)
	for j := pos; j < end; j++ {
		buf = append(buf, byte(in.concInt(it.s.B[j], false)))
		if utf8.FullRune(buf) {
			break
		}
	}
	r, sz := utf8.DecodeRune(buf)
	it.i += sz
	return Tuple{tTrue, f.Const(64, uint64(pos)), f.Const(32, uint64(r))}
}

func (in *Interp) rangeIter(x Value, t types.Type) iterator {
	switch x := x.(type) {
	case *Map:
		return &mapIter{m: x}
	case Str:
		return &strIter{s: x}
	}
	panic(in.abort("internal", fmt.Sprintf("range over %T", x)))
}

// ---------------------------------------------------------------------------
// builtins

func (in *Interp) callBuiltin(fr *frame, site ssa.Instruction, fn *ssa.Builtin, args []Value) Value {
	f := in.tf
	switch fn.Name() {
	case "append":
		s := args[0].(Slice)
		var add []Value
		switch a := args[1].(type) {
		case Slice:
			if len(a.A) == 0 {
				return s
			}
			add = make([]Value, len(a.A))
			for i := range a.A {
				add[i] = in.copyVal(a.A[i].V)
			}
		case Str:
			if a.Len() == 0 {
				return s
			}
			add = make([]Value, a.Len())
			for i := range add {
				add[i] = a.At(f, i)
			}
		default:
			panic(in.abort("internal", fmt.Sprintf("append %T", a)))
		}
		return in.appendVals(s, add)
	case "copy":
		dst := args[0].(Slice)
		n := len(dst.A)
		switch src := args[1].(type) {
		case Slice:
			if len(src.A) < n {
				n = len(src.A)
			}
			// handle overlap like memmove
			tmp := make([]Value, n)
			for i := 0; i < n; i++ {
				tmp[i] = in.copyVal(src.A[i].V)
			}
			for i := 0; i < n; i++ {
				in.store(&dst.A[i], tmp[i])
			}
		case Str:
			if src.Len() < n {
				n = src.Len()
			}
			for i := 0; i < n; i++ {
				in.store(&dst.A[i], src.At(f, i))
			}
		}
		return f.Const(64, uint64(n))
	case "len":
		switch x := args[0].(type) {
		case AnyBlob:
			// serialized size of the carried message: zero exactly when every field is zero
			// (proto3); otherwise some positive length (1 stands for "non-empty")
			// when the message type has a generated Size method, that is the length
			if m, ok := x.Msg.(Iface); ok && m.T != nil {
				if sz := in.prog.LookupMethod(m.T, nil, "Size"); sz != nil && sz.Blocks != nil {
					if t, ok := in.call(fr, fr.site, sz, []Value{m.V}).(*Term); ok {
						return t
					}
				}
			}
			return f.Ite(in.deepZero(x.Msg), f.Const(64, 0), f.Const(64, 1))
		case Str:
			return f.Const(64, uint64(x.Len()))
		case Slice:
			return f.Const(64, uint64(len(x.A)))
		case Array:
			return f.Const(64, uint64(len(x)))
		case *Cell:
			return f.Const(64, uint64(len(x.V.(Array))))
		case *Map:
			if x == nil {
				return f.Const(64, 0)
			}
			return f.Const(64, uint64(x.N))
		case *Chan:
			if x == nil {
				return f.Const(64, 0)
			}
			return f.Const(64, uint64(len(x.buf)))
		}
	case "cap":
		switch x := args[0].(type) {
		case Slice:
			return f.Const(64, uint64(cap(x.A)))
		case Array:
			return f.Const(64, uint64(len(x)))
		case *Cell:
			return f.Const(64, uint64(len(x.V.(Array))))
		case *Chan:
			if x == nil {
				return f.Const(64, 0)
			}
			return f.Const(64, uint64(x.cap))
		}
	case "delete":
		m := args[0].(*Map)
		if m != nil {
			in.mapDelete(m, args[1])
		}
		return nil
	case "print", "println":
		return nil
	case "recover":
		if fr.deferredCall && fr.caller != nil && fr.caller.panicking {
			fr.caller.panicking = false
			tp := fr.caller.panicVal
			fr.caller.panicVal = nil
			if in.ps != nil {
				in.ps.recovered = append(in.ps.recovered, tp)
			}
			return tp.V
		}
		return Iface{}
	case "min", "max":
		r := args[0]
		for _, a := range args[1:] {
			var less *Term
			switch x := r.(type) {
			case *Term:
				less = in.binop(token.LSS, fn.Type().(*types.Signature).Params().At(0).Type(), a, x, nil).(*Term)
			case Str:
				less = strLess(f, a.(Str), x)
			case float64:
				less = f.Bool(a.(float64) < x)
			}
			take := in.branch(less)
			if fn.Name() == "max" {
				take = !take && !in.branch(in.valEq(a, r))
			}
			if take {
				r = a
			}
		}
		return r
	case "clear":
		switch x := args[0].(type) {
		case *Map:
			if x != nil {
				for _, e := range x.Entries {
					if !e.Deleted {
						in.mapDelete(x, e.K)
					}
				}
			}
		case Slice:
			et := fn.Type().(*types.Signature).Params().At(0).Type().Underlying().(*types.Slice).Elem()
			for i := range x.A {
				in.store(&x.A[i], in.zero(et))
			}
		}
		return nil
	case "close":
		return nil
	case "ssa:wrapnilchk":
		recv := args[0]
		if c, ok := recv.(*Cell); ok && c == nil {
			panic(in.targetPanicStr(fmt.Sprintf("value method %s.%s called using nil *%s pointer", in.strOf(args[1]), in.strOf(args[2]), in.strOf(args[1]))))
		}
		return recv
	case "real":
		return real(args[0].(complex128))
	case "imag":
		return imag(args[0].(complex128))
	case "complex":
		return complex(args[0].(float64), args[1].(float64))
	}
	if v, ok := in.unsafeBuiltin(fn.Name(), fn, args); ok {
		return v
	}
	panic(in.abort("unsupported", "builtin "+fn.Name()+fmt.Sprintf(" %T", args[0])))
}

func (in *Interp) strOf(v Value) string {
	if s, ok := v.(Str); ok && s.B == nil {
		return s.S
	}
	return "?"
}

func (in *Interp) appendVals(s Slice, add []Value) Slice {
	n := len(s.A)
	need := n + len(add)
	if need <= cap(s.A) {
		a := s.A[:need]
		for i, v := range add {
			// the cells beyond len belong to the shared backing array
			in.store(&a[n+i], v)
		}
		return Slice{A: a}
	}
	// grow (Go's growth policy, approximately)
	newcap := cap(s.A)
	if newcap == 0 {
		newcap = need
		if newcap < 8 && len(add) == 1 {
			newcap = 8
		}
	} else {
		for newcap < need {
			if newcap < 256 {
				newcap *= 2
			} else {
				newcap += (newcap + 3*256) / 4
			}
		}
	}
	cells := in.newCells(newcap)
	for i := 0; i < n; i++ {
		cells[i].V = s.A[i].V
	}
	for i, v := range add {
		cells[n+i].V = v
	}
	return Slice{A: cells[:need]}
}

// ---------------------------------------------------------------------------
// runtime error values

func (in *Interp) runtimeError(msg string) Value {
	msg = strings.TrimPrefix(msg, "runtime error: ")
	if t := in.env.runtimeErrorString; t != nil {
		return Iface{T: t, V: mkStr(msg)}
	}
	return Iface{T: types.Typ[types.String], V: mkStr("runtime error: " + msg)}
}

func (in *Interp) plainRuntimeError(msg string) Value {
	if t := in.env.runtimePlainError; t != nil {
		return Iface{T: t, V: mkStr(msg)}
	}
	return Iface{T: types.Typ[types.String], V: mkStr(msg)}
}

var _ = math.MaxInt64
