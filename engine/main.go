package main

import (
	"runtime/debug"
	"runtime/pprof"
	"strconv"
	"strings"
	"encoding/json"
	"flag"
	"fmt"
	"os"
	"time"
)

func main() {
	debug.SetGCPercent(600)
	if len(os.Args) < 2 {
		fmt.Fprintln(os.Stderr, "usage: symgo run|check ...")
		os.Exit(2)
	}
	switch os.Args[1] {
	case "run":
		cmdRun(os.Args[2:])
	case "check":
		cmdCheck(os.Args[2:])
	case "replay":
		cmdReplay(os.Args[2:])
	default:
		fmt.Fprintln(os.Stderr, "unknown command", os.Args[1])
		os.Exit(2)
	}
}

func cmdRun(args []string) {
	fs := flag.NewFlagSet("run", flag.ExitOnError)
	harness := fs.String("harness", "H_Smoke", "harness function")
	dir := fs.String("dir", "/verif/harness", "harness module dir")
	workers := fs.Int("workers", 1, "workers")
	unwind := fs.Int("unwind", 256, "loop bound")
	timeout := fs.Int("timeout", 10000, "solver timeout ms")
	witness := fs.String("witness", "", "concrete witness json")
	profile := fs.Bool("profile", false, "profile steps per function")
	budget := fs.Duration("budget", 0, "time budget")
	maxPaths := fs.Int("maxpaths", 0, "max paths")
	cpuprof := fs.String("cpuprofile", "", "cpu profile file")
	params := fs.String("params", "", "k=v,k=v")
	fs.Parse(args)
	t0 := time.Now()
	env, err := LoadEnv(*dir, []string{"."})
	if err != nil {
		fmt.Fprintln(os.Stderr, "load:", err)
		os.Exit(2)
	}
	fmt.Fprintf(os.Stderr, "loaded in %v\n", time.Since(t0))
	cfg := &RunConfig{Workers: *workers, Unwind: *unwind, TimeoutMs: *timeout, Profile: *profile, Budget: *budget, MaxPaths: *maxPaths}
	if *witness != "" {
		cfg.Concrete = loadWitness(*witness)
	}
	if *params != "" {
		cfg.Params = map[string]int{}
		for _, kv := range strings.Split(*params, ",") {
			p := strings.SplitN(kv, "=", 2)
			n, _ := strconv.Atoi(p[1])
			cfg.Params[p[0]] = n
		}
	}
	if *cpuprof != "" {
		f, _ := os.Create(*cpuprof)
		pprof.StartCPUProfile(f)
		defer pprof.StopCPUProfile()
	}
	t1 := time.Now()
	ex, stats, err := Explore(env, "", *harness, cfg)
	if err != nil {
		fmt.Fprintln(os.Stderr, "explore:", err)
		os.Exit(2)
	}
	fmt.Printf("paths=%d aborted=%d steps=%d time=%v queries=%d (sat %d unsat %d unknown %d) solve=%v\n", ex.paths, ex.pathsAborted, ex.steps, time.Since(t1),
		stats.Queries, stats.Sat, stats.Unsat, stats.Unknown, stats.SolveTime)
	fmt.Printf("asserts checked=%d folded=%d unsat=%d sat=%d unknown=%d reached=%v\n", ex.assertsChecked, ex.assertsFolded, ex.assertsUnsat, ex.assertsSat, ex.assertsUnknown, ex.reached)
	for _, v := range ex.violations {
		b, _ := json.Marshal(v.Inputs)
		fmt.Printf("VIOL %s: %s inputs=%s\n  obs=%q\n", v.Assert, v.Msg, b, v.Obs)
	}
	for k, n := range ex.inconcKinds {
		fmt.Printf("INCONCLUSIVE kind=%s n=%d\n", k, n)
	}
	for i, ic := range ex.inconclusive {
		if i < 5 {
			fmt.Printf("  e.g. %s: %s\n", ic.Kind, ic.Msg)
		}
	}
	for _, o := range ex.obsSample {
		for _, l := range o {
			fmt.Printf("OBS %s\n", l)
		}
		fmt.Println("--")
	}
	if len(ex.forksBySite) > 0 {
		fmt.Printf("forks by site: %v\n", ex.forksBySite)
	}
	if len(ex.sharedWrites) > 0 {
		fmt.Printf("shared writes: %v\n", ex.sharedWrites)
	}
	if *profile {
		fmt.Println("top functions:", topN(stats.FnSteps, 25))
		fmt.Println("init skips:", env.initSkipSummary())
	}
}

func loadWitness(path string) map[string]interface{} {
	b, err := os.ReadFile(path)
	if err != nil {
		fmt.Fprintln(os.Stderr, err)
		os.Exit(2)
	}
	var w struct {
		Inputs map[string]interface{} `json:"inputs"`
	}
	if err := json.Unmarshal(b, &w); err != nil {
		fmt.Fprintln(os.Stderr, err)
		os.Exit(2)
	}
	m := map[string]interface{}{}
	for k, v := range w.Inputs {
		m[k] = decodeWitnessValue(v)
	}
	return m
}

