package main

// Call-stack model: runtime.Callers / Caller / FuncForPC answered from the
// engine's own frame stack. A synthetic PC names (function, position).

import (
	"fmt"
	"go/token"
	"go/types"
	"strings"

	"golang.org/x/tools/go/ssa"
)

type pcEntry struct {
	fn    *ssa.Function
	pos   token.Pos
	synth *SynthFrame
}

// SynthFrame is a frame below the harness entry, as measured on the native
// runner (sym.(*V).Run, main.main, runtime.main, runtime.goexit).
type SynthFrame struct {
	Func string
	File string
	Line int
}

// RFunc stands in for *runtime.Func.
type RFunc struct {
	fn   *ssa.Function
	name string
}

const pcBase = 0x400000

func (in *Interp) pcFor(fn *ssa.Function, pos token.Pos) uint64 {
	return in.pcForEntry(pcEntry{fn: fn, pos: pos})
}

func (in *Interp) pcForEntry(k pcEntry) uint64 {
	if i, ok := in.pcIndex[k]; ok {
		return pcBase + uint64(i)*16 + 8
	}
	i := len(in.pcTable)
	in.pcTable = append(in.pcTable, k)
	in.pcIndex[k] = i
	return pcBase + uint64(i)*16 + 8
}

func (in *Interp) pcLookup(pc uint64) (pcEntry, bool) {
	if pc < pcBase {
		return pcEntry{}, false
	}
	i := int((pc - pcBase) >> 4)
	if i >= len(in.pcTable) {
		return pcEntry{}, false
	}
	return in.pcTable[i], true
}

// logicalFrames lists the Go-visible frames starting at the intrinsic's pseudo
// frame (index 0 = the runtime function itself).
func (in *Interp) logicalFrames(fr *frame) []pcEntry {
	var r []pcEntry
	// frame 0: the runtime function
	r = append(r, pcEntry{fn: fr.fn})
	for f := fr.caller; f != nil; f = f.caller {
		pos := token.NoPos
		if f.cur != nil {
			pos = f.cur.Pos()
		}
		if f.fn.Synthetic == "" || strings.HasPrefix(f.fn.Synthetic, "instance of") {
			r = append(r, pcEntry{fn: f.fn, pos: pos})
		}
	}
	// the goroutine's bottom frames in a real process (measured natively)
	for i := range in.env.bottomFrames {
		r = append(r, pcEntry{synth: &in.env.bottomFrames[i]})
	}
	return r
}

// runtimeFuncName renders fn the way runtime.Func.Name does.
func runtimeFuncName(fn *ssa.Function) string {
	if fn == nil {
		return ""
	}
	// anonymous functions: parent name + ".funcN"
	if p := fn.Parent(); p != nil {
		name := fn.Name() // e.g. F$1
		idx := strings.LastIndex(name, "$")
		n := name[idx+1:]
		pn := runtimeFuncName(p)
		if p.Parent() != nil {
			return pn + "." + n
		}
		return pn + ".func" + n
	}
	pkgPath := ""
	if fn.Pkg != nil {
		pkgPath = fn.Pkg.Pkg.Path()
	} else if o := fn.Object(); o != nil && o.Pkg() != nil {
		pkgPath = o.Pkg().Path()
	}
	if recv := fn.Signature.Recv(); recv != nil {
		t := recv.Type()
		ptr := false
		if p, ok := t.(*types.Pointer); ok {
			ptr = true
			t = p.Elem()
		}
		tn := ""
		if n, ok := t.(*types.Named); ok {
			tn = n.Obj().Name()
			if n.Obj().Pkg() != nil {
				pkgPath = n.Obj().Pkg().Path()
			}
		}
		if ptr {
			return pkgPath + ".(*" + tn + ")." + fn.Name()
		}
		return pkgPath + "." + tn + "." + fn.Name()
	}
	name := fn.Name()
	if strings.HasPrefix(name, "init#") {
		name = "init." + name[5:]
	}
	return pkgPath + "." + name
}

func (in *Interp) registerStackIntrinsics() {
	r := in.intrinsics
	r["runtime.Callers"] = func(in *Interp, fr *frame, args []Value) Value {
		skipT := args[0].(*Term)
		pcs := args[1].(Slice)
		frames := in.logicalFrames(fr)
		if in.ps != nil && in.ps.callersHook != nil {
			in.ps.callersHook(in, fr, skipT, len(frames))
		}
		skip := int(in.concInt(skipT, true))
		n := 0
		for i := skip; i < len(frames) && i >= 0 && n < len(pcs.A); i++ {
			in.store(&pcs.A[n], in.tf.Const(64, in.pcForEntry(frames[i])+1))
			n++
		}
		return in.tf.Const(64, uint64(n))
	}
	r["runtime.Caller"] = func(in *Interp, fr *frame, args []Value) Value {
		skipT := args[0].(*Term)
		frames := in.logicalFrames(fr)
		if in.ps != nil && in.ps.callersHook != nil {
			in.ps.callersHook(in, fr, in.tf.Bin(OAdd, skipT, in.tf.Const(64, 1)), len(frames))
		}
		skip := int(in.concInt(skipT, true)) + 1 // Caller(0) = caller of Caller
		if skip < 0 || skip >= len(frames) {
			return Tuple{in.tf.Const(64, 0), mkStr(""), in.tf.Const(64, 0), tFalse}
		}
		e := frames[skip]
		if e.synth != nil {
			return Tuple{in.tf.Const(64, in.pcForEntry(e)), mkStr(e.synth.File), in.tf.Const(64, uint64(e.synth.Line)), tTrue}
		}
		p := in.prog.Fset.Position(e.pos)
		return Tuple{in.tf.Const(64, in.pcForEntry(e)), mkStr(p.Filename), in.tf.Const(64, uint64(p.Line)), tTrue}
	}
	r["runtime.FuncForPC"] = func(in *Interp, fr *frame, args []Value) Value {
		pc := uint64(in.concInt(args[0].(*Term), false))
		e, ok := in.pcLookup(pc)
		if !ok {
			return (*Cell)(nil)
		}
		name := ""
		if e.synth != nil {
			name = e.synth.Func
		} else {
			name = runtimeFuncName(e.fn)
		}
		if c, ok := in.rfuncs[name]; ok {
			return c
		}
		c := &Cell{V: RFunc{fn: e.fn, name: name}, Epoch: 0}
		in.rfuncs[name] = c
		return c
	}
	r["(*runtime.Func).Name"] = func(in *Interp, fr *frame, args []Value) Value {
		c := args[0].(*Cell)
		if c == nil {
			return mkStr("")
		}
		return mkStr(c.V.(RFunc).name)
	}
	r["(*runtime.Func).FileLine"] = func(in *Interp, fr *frame, args []Value) Value {
		pc := uint64(in.concInt(args[1].(*Term), false))
		e, ok := in.pcLookup(pc)
		if !ok {
			return Tuple{mkStr("?"), in.tf.Const(64, 0)}
		}
		if e.synth != nil {
			return Tuple{mkStr(e.synth.File), in.tf.Const(64, uint64(e.synth.Line))}
		}
		pos := e.pos
		if pos == token.NoPos {
			pos = e.fn.Pos()
		}
		p := in.prog.Fset.Position(pos)
		return Tuple{mkStr(p.Filename), in.tf.Const(64, uint64(p.Line))}
	}
	r["(*runtime.Func).Entry"] = func(in *Interp, fr *frame, args []Value) Value {
		c := args[0].(*Cell)
		if c == nil {
			return in.tf.Const(64, 0)
		}
		return in.tf.Const(64, pcBase)
	}
	r["runtime.CallersFrames"] = func(in *Interp, fr *frame, args []Value) Value {
		panic(in.abort("unsupported", "runtime.CallersFrames"))
	}
	r["runtime/debug.Stack"] = func(in *Interp, fr *frame, args []Value) Value {
		return Slice{Nil: true}
	}
	r["runtime/debug.ReadBuildInfo"] = func(in *Interp, fr *frame, args []Value) Value {
		return Tuple{(*Cell)(nil), tFalse}
	}
}

var _ = fmt.Sprintf
