package main

// Long-lived SMT solver process (z3 -in) with push/pop scoping and DAG-sharing
// term definitions via define-fun.

import (
	"bufio"
	"fmt"
	"io"
	"os"
	"os/exec"
	"strconv"
	"strings"
	"time"
)

type SatResult int

const (
	Unsat SatResult = iota
	Sat
	Unknown
)

func (r SatResult) String() string { return [...]string{"unsat", "sat", "unknown"}[r] }

type Solver struct {
	cmd       *exec.Cmd
	in        io.WriteCloser
	out       *bufio.Reader
	nextID    int32
	scopes    [][]*Term // terms defined per scope
	buf       strings.Builder
	timeoutMs int
	log       io.Writer
	kind      string

	NQueries  int
	NSat      int
	NUnsat    int
	NUnknown  int
	SolveTime time.Duration
	Errors    int
	dump      *os.File

	rec     *strings.Builder // when non-nil: the session text of the current path
	recAns  []string         // and the sat/unsat/unknown answers received
}

func NewSolver(kind string, timeoutMs int) (*Solver, error) {
	var cmd *exec.Cmd
	switch kind {
	case "z3", "":
		cmd = exec.Command("z3", "-in")
		kind = "z3"
	case "z3-new":
		cmd = exec.Command("z3-new", "-in")
	case "cvc5":
		cmd = exec.Command("cvc5", "--incremental", "--produce-models", "--lang=smt2", fmt.Sprintf("--tlimit-per=%d", timeoutMs))
	default:
		return nil, fmt.Errorf("unknown solver %s", kind)
	}
	in, err := cmd.StdinPipe()
	if err != nil {
		return nil, err
	}
	out, err := cmd.StdoutPipe()
	if err != nil {
		return nil, err
	}
	cmd.Stderr = os.Stderr
	if err := cmd.Start(); err != nil {
		return nil, err
	}
	s := &Solver{cmd: cmd, in: in, out: bufio.NewReaderSize(out, 1<<16), nextID: 1, timeoutMs: timeoutMs, kind: kind}
	s.scopes = [][]*Term{nil}
	if kind == "cvc5" {
		s.send("(set-logic QF_BV)\n")
	} else {
		s.send(fmt.Sprintf("(set-option :timeout %d)\n", timeoutMs))
		s.send("(set-option :model.completion true)\n")
	}
	return s, nil
}

func (s *Solver) Close() {
	if s.cmd != nil {
		s.in.Close()
		s.cmd.Process.Kill()
		s.cmd.Wait()
		s.cmd = nil
	}
}

func (s *Solver) send(str string) {
	if s.dump != nil {
		s.dump.WriteString(str)
	}
	if s.rec != nil {
		s.rec.WriteString(str)
	}
	io.WriteString(s.in, str)
}

func (s *Solver) Push() {
	s.send("(push 1)\n")
	s.scopes = append(s.scopes, nil)
}

func (s *Solver) Pop() {
	top := s.scopes[len(s.scopes)-1]
	for _, t := range top {
		t.defID = 0
	}
	s.scopes = s.scopes[:len(s.scopes)-1]
	s.send("(pop 1)\n")
}

// ref returns the SMT-LIB reference for t, emitting definitions as needed.
func (s *Solver) ref(t *Term) string {
	switch t.Op {
	case OConst:
		return constStr(t)
	}
	if t.defID != 0 {
		return "t" + strconv.Itoa(int(t.defID))
	}
	var body string
	switch t.Op {
	case OVar:
		id := s.nextID
		s.nextID++
		t.defID = id
		s.scopes[len(s.scopes)-1] = append(s.scopes[len(s.scopes)-1], t)
		s.send(fmt.Sprintf("(declare-const t%d %s)\n", id, sortStr(t.W)))
		return "t" + strconv.Itoa(int(id))
	case OExtract:
		body = fmt.Sprintf("((_ extract %d 0) %s)", t.C>>8, s.ref(t.A))
	case OZext:
		body = fmt.Sprintf("((_ zero_extend %d) %s)", t.W-t.A.W, s.ref(t.A))
	case OSext:
		body = fmt.Sprintf("((_ sign_extend %d) %s)", t.W-t.A.W, s.ref(t.A))
	default:
		a := s.ref(t.A)
		b, d := "", ""
		if t.B != nil {
			b = " " + s.ref(t.B)
		}
		if t.D != nil {
			d = " " + s.ref(t.D)
		}
		body = "(" + opNames[t.Op] + " " + a + b + d + ")"
	}
	id := s.nextID
	s.nextID++
	t.defID = id
	s.scopes[len(s.scopes)-1] = append(s.scopes[len(s.scopes)-1], t)
	s.send(fmt.Sprintf("(define-fun t%d () %s %s)\n", id, sortStr(t.W), body))
	return "t" + strconv.Itoa(int(id))
}

func (s *Solver) Assert(t *Term) {
	if t.IsTrue() {
		return
	}
	r := s.ref(t)
	s.send("(assert " + r + ")\n")
}

func (s *Solver) readLine() (string, error) {
	line, err := s.out.ReadString('\n')
	return strings.TrimSpace(line), err
}

func (s *Solver) Check() SatResult {
	s.NQueries++
	t0 := time.Now()
	s.send("(check-sat)\n")
	res := Unknown
	for {
		line, err := s.readLine()
		if err != nil {
			s.Errors++
			fmt.Fprintf(os.Stderr, "solver read error: %v\n", err)
			res = Unknown
			break
		}
		if line == "" {
			continue
		}
		if strings.HasPrefix(line, "(error") {
			s.Errors++
			fmt.Fprintf(os.Stderr, "solver: %s\n", line)
			continue
		}
		switch line {
		case "sat":
			res = Sat
		case "unsat":
			res = Unsat
		case "unknown", "timeout":
			res = Unknown
		default:
			fmt.Fprintf(os.Stderr, "solver unexpected: %q\n", line)
			continue
		}
		break
	}
	s.SolveTime += time.Since(t0)
	if s.rec != nil {
		s.recAns = append(s.recAns, res.String())
	}
	switch res {
	case Sat:
		s.NSat++
	case Unsat:
		s.NUnsat++
	default:
		s.NUnknown++
	}
	return res
}

// CheckWith checks satisfiability of the current assertions plus t, leaving the
// assertion stack unchanged.
func (s *Solver) CheckWith(t *Term) SatResult {
	if t.IsFalse() {
		return Unsat
	}
	s.Push()
	s.Assert(t)
	r := s.Check()
	s.Pop()
	return r
}

// Model fetches values of vars after a Sat result (must be called before Pop).
func (s *Solver) Model(vars []*Term) map[*Term]uint64 {
	m := map[*Term]uint64{}
	var defined []*Term
	for _, v := range vars {
		if v.defID != 0 {
			defined = append(defined, v)
		}
	}
	if len(defined) == 0 {
		return m
	}
	var sb strings.Builder
	sb.WriteString("(get-value (")
	for _, v := range defined {
		sb.WriteString("t" + strconv.Itoa(int(v.defID)) + " ")
	}
	sb.WriteString("))\n")
	s.send(sb.String())
	// parse: ((t1 #x00) (t2 true) ...), possibly multi-line
	depth := 0
	var acc strings.Builder
	started := false
	for {
		line, err := s.out.ReadString('\n')
		if err != nil {
			s.Errors++
			return m
		}
		if strings.HasPrefix(strings.TrimSpace(line), "(error") {
			s.Errors++
			fmt.Fprintf(os.Stderr, "solver: %s", line)
			return m
		}
		for _, ch := range line {
			if ch == '(' {
				depth++
				started = true
			} else if ch == ')' {
				depth--
			}
		}
		acc.WriteString(line)
		if started && depth == 0 {
			break
		}
	}
	txt := acc.String()
	byID := map[string]*Term{}
	for _, v := range defined {
		byID["t"+strconv.Itoa(int(v.defID))] = v
	}
	toks := strings.FieldsFunc(txt, func(r rune) bool { return r == '(' || r == ')' || r == ' ' || r == '\n' || r == '\t' })
	for i := 0; i+1 < len(toks); i++ {
		v, ok := byID[toks[i]]
		if !ok {
			continue
		}
		val := toks[i+1]
		var x uint64
		switch {
		case val == "true":
			x = 1
		case val == "false":
			x = 0
		case strings.HasPrefix(val, "#x"):
			x, _ = strconv.ParseUint(val[2:], 16, 64)
		case strings.HasPrefix(val, "#b"):
			x, _ = strconv.ParseUint(val[2:], 2, 64)
		case val == "_" && i+2 < len(toks) && strings.HasPrefix(toks[i+2], "bv"):
			x, _ = strconv.ParseUint(toks[i+2][2:], 10, 64)
		}
		m[v] = x
		i++
	}
	return m
}

// StartRecording / StopRecording capture one path's solver session as a
// self-contained SMT-LIB2 script (all declarations of a path live inside its
// push scope) together with the answers z3 gave.
func (s *Solver) StartRecording() {
	s.rec = &strings.Builder{}
	s.recAns = nil
}

func (s *Solver) StopRecording() (string, []string) {
	if s.rec == nil {
		return "", nil
	}
	txt, ans := s.rec.String(), s.recAns
	s.rec, s.recAns = nil, nil
	return txt, ans
}

// crossCheck replays a recorded session on another solver binary and returns its answers.
func crossCheck(kind, script string, timeoutMs int) ([]string, error) {
	var cmd *exec.Cmd
	switch kind {
	case "z3-new":
		cmd = exec.Command("z3-new", "-in", fmt.Sprintf("-t:%d", timeoutMs))
	case "cvc5":
		cmd = exec.Command("cvc5", "--incremental", "--produce-models", "--lang=smt2", fmt.Sprintf("--tlimit-per=%d", timeoutMs))
		script = "(set-logic QF_BV)\n" + script
	default:
		return nil, fmt.Errorf("unknown solver %s", kind)
	}
	cmd.Stdin = strings.NewReader(script + "(exit)\n")
	out, err := cmd.Output()
	if err != nil && len(out) == 0 {
		return nil, err
	}
	var ans []string
	for _, l := range strings.Split(string(out), "\n") {
		l = strings.TrimSpace(l)
		switch l {
		case "sat", "unsat", "unknown", "timeout":
			ans = append(ans, l)
		}
		if strings.HasPrefix(l, "(error") {
			ans = append(ans, "error")
		}
	}
	return ans, nil
}
