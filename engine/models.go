package main

// Models for regexp (the two marker patterns of redact), protobuf Any
// (identity / deep copy on the message structure) and a few opaque leaves.

import (
	"fmt"
	"go/types"
	"strings"

	"golang.org/x/tools/go/ssa"
)

// ---------------------------------------------------------------------------
// regexp

type RRegexp struct {
	Pattern string
	Kind    int // 1 = single marker rune, 2 = sensitive span
}

const (
	startS = "‹" // ‹
	endS   = "›" // ›
)

func (in *Interp) isMarkerAt(b []*Term, i int, last byte) *Term {
	if i+2 >= len(b) {
		return tFalse
	}
	f := in.tf
	return f.And(f.And(f.Eq(b[i], f.Const(8, 0xe2)), f.Eq(b[i+1], f.Const(8, 0x80))), f.Eq(b[i+2], f.Const(8, uint64(last))))
}

func (in *Interp) reReplace(re RRegexp, src []*Term, repl []*Term) []*Term {
	out := make([]*Term, 0, len(src))
	switch re.Kind {
	case 1:
		for i := 0; i < len(src); {
			if in.branch(in.tf.Or(in.isMarkerAt(src, i, 0xb9), in.isMarkerAt(src, i, 0xba))) {
				out = append(out, repl...)
				i += 3
			} else {
				out = append(out, src[i])
				i++
			}
		}
	case 2:
		i := 0
		for i < len(src) {
			if !in.branch(in.isMarkerAt(src, i, 0xb9)) {
				out = append(out, src[i])
				i++
				continue
			}
			// candidate start at i
			j := i + 3
			matched := false
			for j < len(src) {
				if in.branch(in.isMarkerAt(src, j, 0xba)) {
					matched = true
					break
				}
				if in.branch(in.isMarkerAt(src, j, 0xb9)) {
					break
				}
				j++
			}
			if matched {
				out = append(out, repl...)
				i = j + 3
			} else {
				// no match starting at i: emit up to j and retry from j
				if j > len(src) {
					j = len(src)
				}
				out = append(out, src[i:j]...)
				i = j
			}
		}
	default:
		panic(in.abort("unsupported", "regexp pattern "+re.Pattern))
	}
	return out
}

func (in *Interp) registerRegexpIntrinsics() {
	r := in.intrinsics
	r["regexp.MustCompile"] = func(in *Interp, fr *frame, args []Value) Value {
		p := in.concStr(args[0].(Str))
		re := RRegexp{Pattern: p}
		switch p {
		case "[" + startS + endS + "]":
			re.Kind = 1
		case startS + "[^" + startS + endS + "]*" + endS:
			re.Kind = 2
		}
		return &Cell{V: re}
	}
	getRe := func(in *Interp, v Value) RRegexp {
		c := v.(*Cell)
		re, ok := c.V.(RRegexp)
		if !ok {
			panic(in.abort("unsupported", "regexp object"))
		}
		return re
	}
	r["(*regexp.Regexp).ReplaceAllString"] = func(in *Interp, fr *frame, args []Value) Value {
		return strFromTerms(in.reReplace(getRe(in, args[0]), args[1].(Str).Bytes(in.tf), args[2].(Str).Bytes(in.tf)))
	}
	r["(*regexp.Regexp).ReplaceAll"] = func(in *Interp, fr *frame, args []Value) Value {
		out := in.reReplace(getRe(in, args[0]), sliceBytes(args[1].(Slice)), sliceBytes(args[2].(Slice)))
		cells := in.newCells(len(out))
		for i := range out {
			cells[i].V = out[i]
		}
		return Slice{A: cells}
	}
	r["(*regexp.Regexp).String"] = func(in *Interp, fr *frame, args []Value) Value {
		return mkStr(getRe(in, args[0]).Pattern)
	}
}

// ---------------------------------------------------------------------------
// protobuf

type AnyBlob struct {
	Msg Value // Iface holding the message (deep copy)
}

func (in *Interp) deepCopy(v Value, seen map[*Cell]*Cell) Value {
	switch v := v.(type) {
	case *Cell:
		if v == nil {
			return v
		}
		if c, ok := seen[v]; ok {
			return c
		}
		n := in.newCell(nil)
		seen[v] = n
		n.V = in.deepCopy(v.V, seen)
		return n
	case Struct:
		n := in.newCells(len(v))
		for i := range v {
			n[i].V = in.deepCopy(v[i].V, seen)
		}
		return Struct(n)
	case Array:
		n := in.newCells(len(v))
		for i := range v {
			n[i].V = in.deepCopy(v[i].V, seen)
		}
		return Array(n)
	case Slice:
		if v.Nil {
			return v
		}
		if len(v.A) == 0 {
			// protobuf round trip turns empty into nil
			return Slice{Nil: true}
		}
		n := in.newCells(len(v.A))
		for i := range v.A {
			n[i].V = in.deepCopy(v.A[i].V, seen)
		}
		return Slice{A: n}
	case Iface:
		if v.T == nil {
			return v
		}
		return Iface{T: v.T, V: in.deepCopy(v.V, seen)}
	case *Map:
		if v == nil {
			return v
		}
		n := in.newMap(v.KT)
		for _, e := range v.Entries {
			if !e.Deleted {
				in.mapSet(n, e.K, in.deepCopy(e.V.V, seen))
			}
		}
		return n
	case AnyBlob:
		return AnyBlob{Msg: in.deepCopy(v.Msg, seen)}
	}
	return v
}

func (in *Interp) callNamed(fr *frame, pkg, name string, args ...Value) Value {
	p := in.env.allPkgs[pkg]
	if p == nil {
		panic(in.abort("internal", "no package "+pkg))
	}
	fn := p.Func(name)
	if fn == nil {
		panic(in.abort("internal", "no function "+pkg+"."+name))
	}
	return in.call(fr, fr.site, fn, args)
}

func (in *Interp) mkError(fr *frame, msg string) Value {
	return in.callNamed(fr, "errors", "New", mkStr(msg))
}

func fieldIndex(t types.Type, name string) int {
	st := t.Underlying().(*types.Struct)
	for i := 0; i < st.NumFields(); i++ {
		if st.Field(i).Name() == name {
			return i
		}
	}
	return -1
}

func (in *Interp) registerProtoIntrinsics() {
	r := in.intrinsics
	reg := func(in *Interp, fr *frame, args []Value) Value {
		i := args[0].(Iface)
		name := in.concStr(args[1].(Str))
		if i.T != nil {
			in.protoByName[name] = i.T
			in.protoByType[i.T] = name
		}
		return nil
	}
	r["github.com/gogo/protobuf/proto.RegisterType"] = reg
	r["github.com/golang/protobuf/proto.RegisterType"] = reg
	nop := func(in *Interp, fr *frame, args []Value) Value { return nil }
	for _, p := range []string{"github.com/gogo/protobuf/proto", "github.com/golang/protobuf/proto"} {
		r[p+".RegisterFile"] = nop
		r[p+".RegisterEnum"] = nop
		r[p+".RegisterMapType"] = nop
		r[p+".RegisterExtension"] = nop
		r[p+".RegisterXXX"] = nop
	}
	clone := func(in *Interp, fr *frame, args []Value) Value {
		return in.deepCopy(args[0], map[*Cell]*Cell{})
	}
	r["github.com/gogo/protobuf/proto.Clone"] = clone
	r["github.com/golang/protobuf/proto.Clone"] = clone
	r["google.golang.org/protobuf/proto.Clone"] = clone
	r["github.com/gogo/protobuf/proto.MessageName"] = func(in *Interp, fr *frame, args []Value) Value {
		i := args[0].(Iface)
		return mkStr(in.protoByType[i.T])
	}
	r["github.com/gogo/protobuf/types.MarshalAny"] = func(in *Interp, fr *frame, args []Value) Value {
		i := args[0].(Iface)
		errT := Iface{}
		if i.T == nil {
			return Tuple{(*Cell)(nil), in.mkError(fr, "proto: Marshal called with nil")}
		}
		if c, ok := i.V.(*Cell); ok && c == nil {
			return Tuple{(*Cell)(nil), in.mkError(fr, "proto: Marshal called with nil")}
		}
		name, ok := in.protoByType[i.T]
		if !ok {
			panic(in.abort("unsupported", "MarshalAny of unregistered type "+i.T.String()))
		}
		anyT := fr.fn.Signature.Results().At(0).Type().Underlying().(*types.Pointer).Elem()
		st := in.zero(anyT).(Struct)
		st[fieldIndex(anyT, "TypeUrl")].V = mkStr("type.googleapis.com/" + name)
		st[fieldIndex(anyT, "Value")].V = AnyBlob{Msg: in.deepCopy(i, map[*Cell]*Cell{})}
		return Tuple{in.newCell(st), errT}
	}
	r["github.com/gogo/protobuf/types.UnmarshalAny"] = func(in *Interp, fr *frame, args []Value) Value {
		anyP := args[0].(*Cell)
		dst := args[1].(Iface)
		if anyP == nil {
			return in.mkError(fr, "message is nil")
		}
		anyT := fr.fn.Signature.Params().At(0).Type().Underlying().(*types.Pointer).Elem()
		st := anyP.V.(Struct)
		url := in.concStr(st[fieldIndex(anyT, "TypeUrl")].V.(Str))
		name := url
		if k := strings.LastIndex(url, "/"); k >= 0 {
			name = url[k+1:]
		} else {
			return in.mkError(fr, fmt.Sprintf("message type url %q is invalid", url))
		}
		mt, ok := in.protoByName[name]
		if !ok {
			return in.mkError(fr, fmt.Sprintf("any: message type %q isn't linked in", name))
		}
		var msg Value
		switch val := st[fieldIndex(anyT, "Value")].V.(type) {
		case AnyBlob:
			m := val.Msg.(Iface)
			if m.T != mt {
				return in.mkError(fr, "proto: wrong wireType (payload of another message type)")
			}
			msg = in.deepCopy(m, map[*Cell]*Cell{})
		case Slice:
			msg = Iface{T: mt, V: in.newCell(in.zero(deref(mt)))}
			if len(val.A) != 0 {
				// Raw bytes that did not come from MarshalAny: harnesses only use byte strings
				// that no message type can parse (a lone 0xff: unterminated tag varint). gogo
				// allocates the message in the DynamicAny before the byte-level parse fails.
				for i := range val.A {
					if t, ok := val.A[i].V.(*Term); !ok || !t.IsConst() || t.C != 0xff {
						panic(in.abort("unsupported", "UnmarshalAny of raw bytes other than 0xff..."))
					}
				}
				if dc, ok := dst.V.(*Cell); ok && dc != nil {
					if named, ok := deref(dst.T).(*types.Named); ok && named.Obj().Name() == "DynamicAny" {
						ds := dc.V.(Struct)
						in.store(&ds[0], msg)
					}
				}
				return in.mkError(fr, "proto: illegal tag / unexpected EOF")
			}
		default:
			panic(in.abort("internal", fmt.Sprintf("Any.Value is %T", val)))
		}
		// dst is *DynamicAny (or a concrete message)
		dc, ok := dst.V.(*Cell)
		if !ok || dc == nil {
			panic(in.abort("unsupported", "UnmarshalAny destination"))
		}
		if named, ok := deref(dst.T).(*types.Named); ok && named.Obj().Name() == "DynamicAny" {
			ds := dc.V.(Struct)
			in.store(&ds[0], msg)
			return Iface{}
		}
		if dst.T != mt {
			return in.mkError(fr, "mismatched message type")
		}
		in.store(dc, in.copyVal(msg.(Iface).V.(*Cell).V))
		return Iface{}
	}
}

// ---------------------------------------------------------------------------
// fmt leaves applied to symbolic data

func (in *Interp) registerFmtIntrinsics() {
	r := in.intrinsics
	// %#v goes through kr/pretty in the library; content is not the subject of any property.
	r["github.com/kr/pretty.Formatter"] = func(in *Interp, fr *frame, args []Value) Value {
		return args[0]
	}
	r["github.com/getsentry/sentry-go.CaptureEvent"] = func(in *Interp, fr *frame, args []Value) Value {
		return (*Cell)(nil)
	}
	r["(*go/build.Context).SrcDirs"] = func(in *Interp, fr *frame, args []Value) Value {
		dirs := in.srcDirs()
		cells := in.newCells(len(dirs))
		for i, d := range dirs {
			cells[i].V = mkStr(d)
		}
		return Slice{A: cells}
	}
}

func (in *Interp) srcDirs() []string {
	return buildSrcDirs()
}

var _ *ssa.Function

// deepEq builds the term "a and b are structurally equal" (messages carried by Any blobs).
func (in *Interp) deepEq(a, b Value) *Term {
	f := in.tf
	switch a := a.(type) {
	case *Cell:
		bc, ok := b.(*Cell)
		if !ok {
			return tFalse
		}
		if a == nil || bc == nil {
			return f.Bool(a == nil && bc == nil)
		}
		return in.deepEq(a.V, bc.V)
	case Struct:
		bs, ok := b.(Struct)
		if !ok || len(a) != len(bs) {
			return tFalse
		}
		r := tTrue
		for i := range a {
			r = f.And(r, in.deepEq(a[i].V, bs[i].V))
			if r.IsFalse() {
				return r
			}
		}
		return r
	case Array:
		bs, ok := b.(Array)
		if !ok || len(a) != len(bs) {
			return tFalse
		}
		r := tTrue
		for i := range a {
			r = f.And(r, in.deepEq(a[i].V, bs[i].V))
		}
		return r
	case Slice:
		bs, ok := b.(Slice)
		if !ok || len(a.A) != len(bs.A) {
			return tFalse
		}
		r := tTrue
		for i := range a.A {
			r = f.And(r, in.deepEq(a.A[i].V, bs.A[i].V))
		}
		return r
	case Iface:
		bi, ok := b.(Iface)
		if !ok {
			return tFalse
		}
		if a.T == nil || bi.T == nil {
			return f.Bool(a.T == nil && bi.T == nil)
		}
		if a.T != bi.T {
			return tFalse
		}
		return in.deepEq(a.V, bi.V)
	case AnyBlob:
		bb, ok := b.(AnyBlob)
		if !ok {
			// blob vs raw bytes: equal only if both are empty messages; be conservative
			return tFalse
		}
		return in.deepEq(a.Msg, bb.Msg)
	case *Map:
		bm, ok := b.(*Map)
		if !ok {
			return tFalse
		}
		if a == nil || bm == nil || a.N == 0 || bm.N == 0 {
			an, bn := 0, 0
			if a != nil {
				an = a.N
			}
			if bm != nil {
				bn = bm.N
			}
			return f.Bool(an == bn)
		}
		panic(in.abort("unsupported", "deepEq on non-empty maps"))
	case *Term:
		bt, ok := b.(*Term)
		if !ok || a.W != bt.W {
			return tFalse
		}
		return f.Eq(a, bt)
	case Str:
		bs, ok := b.(Str)
		if !ok {
			return tFalse
		}
		return strEq(f, a, bs)
	case float64:
		bf, ok := b.(float64)
		return f.Bool(ok && a == bf)
	case nil:
		return f.Bool(b == nil)
	}
	panic(in.abort("unsupported", fmt.Sprintf("deepEq on %T", a)))
}

func (in *Interp) registerWireIntrinsics() {
	r := in.intrinsics
	r["verifh/wire.Copy"] = func(in *Interp, fr *frame, args []Value) Value {
		return in.deepCopy(args[0], map[*Cell]*Cell{})
	}
	r["verifh/wire.AnyEqual"] = func(in *Interp, fr *frame, args []Value) Value {
		a, b := args[0].(*Cell), args[1].(*Cell)
		if a == nil || b == nil {
			return in.tf.Bool(a == nil && b == nil)
		}
		return in.deepEq(a.V, b.V)
	}
}

// deepZero builds the term "every scalar reachable from v is zero / empty".
func (in *Interp) deepZero(v Value) *Term {
	f := in.tf
	switch v := v.(type) {
	case *Cell:
		if v == nil {
			return tTrue
		}
		return in.deepZero(v.V)
	case Struct:
		r := tTrue
		for i := range v {
			r = f.And(r, in.deepZero(v[i].V))
		}
		return r
	case Array:
		r := tTrue
		for i := range v {
			r = f.And(r, in.deepZero(v[i].V))
		}
		return r
	case Slice:
		return f.Bool(len(v.A) == 0)
	case Iface:
		if v.T == nil {
			return tTrue
		}
		return in.deepZero(v.V)
	case *Map:
		return f.Bool(v == nil || v.N == 0)
	case *Term:
		if v.W == 0 {
			return f.Not(v)
		}
		return f.Eq(v, f.Const(v.W, 0))
	case Str:
		return f.Bool(v.Len() == 0)
	case float64:
		return f.Bool(v == 0)
	case AnyBlob:
		return tFalse
	case nil:
		return tTrue
	}
	return tFalse
}
