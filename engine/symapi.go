package main

// Engine side of the harness API (package verifh/sym): nondeterministic
// inputs, assumptions, assertions, observations.

import (
	"sort"

	"golang.org/x/tools/go/ssa"
	"encoding/base64"
	"fmt"
)

// String classes (must match verifh/sym).
const (
	clsANY = iota
	clsREG
	clsREGNN
	clsTOK
	clsNOMARK
	clsLOWER
	clsHOST
	clsMARKTOK  // a redaction marker followed by a token byte: E2 80 {B9,BA} {01..08}
	clsMARK2    // marker, printable byte, marker: E2 80 {B9,BA} c E2 80 {B9,BA}
	clsNEARMARK // a rune next to the markers: E2 80 {B8,BB} (U+2038, U+203B)
	clsTOKMARK2 // token byte, marker, printable byte, marker, token byte (9 bytes)
)

// templated classes have a fixed shape: per position either a constant or a set of values
var classTemplates = map[int][][]byte{
	clsMARKTOK:  {{0xe2}, {0x80}, {0xb9, 0xba}, {1, 2, 3, 4, 5, 6, 7, 8}},
	clsMARK2:    {{0xe2}, {0x80}, {0xb9, 0xba}, nil, {0xe2}, {0x80}, {0xb9, 0xba}},
	clsNEARMARK: {{0xe2}, {0x80}, {0xb8, 0xbb}},
	clsTOKMARK2: {{1, 2, 3, 4, 5, 6, 7, 8}, {0xe2}, {0x80}, {0xb9, 0xba}, nil, {0xe2}, {0x80}, {0xb9, 0xba}, {1, 2, 3, 4, 5, 6, 7, 8}},
}

func (in *Interp) classByte(cls int, b *Term) *Term {
	f := in.tf
	c := func(x uint64) *Term { return f.Const(8, x) }
	switch cls {
	case clsANY:
		return tTrue
	case clsREG:
		return f.Or(f.And(f.Cmp(OUle, c(0x20), b), f.Cmp(OUle, b, c(0x7e))), f.Eq(b, c('\n')))
	case clsREGNN:
		return f.And(f.Cmp(OUle, c(0x20), b), f.Cmp(OUle, b, c(0x7e)))
	case clsTOK:
		return f.And(f.Cmp(OUle, c(0x01), b), f.Cmp(OUle, b, c(0x08)))
	case clsNOMARK:
		return f.Not(f.Eq(b, c(0xe2)))
	case clsLOWER:
		return f.And(f.Cmp(OUle, c('a'), b), f.Cmp(OUle, b, c('z')))
	case clsHOST:
		// hostile but marker-free and token-free: anything except 0xE2 and 0x01..0x08
		return f.And(f.Not(f.Eq(b, c(0xe2))), f.Not(f.And(f.Cmp(OUle, c(0x01), b), f.Cmp(OUle, b, c(0x08)))))
	}
	panic(in.abort("internal", fmt.Sprintf("unknown string class %d", cls)))
}

func (in *Interp) symStr(name string, cls, min, max int) Str {
	ps := in.ps
	name = ps.uniqueName(name)
	if ps.concrete != nil {
		v, ok := ps.concrete[name]
		if !ok {
			panic(in.abort("witness", "missing input "+name))
		}
		return mkStr(v.(string))
	}
	if tmpl, ok := classTemplates[cls]; ok {
		// fixed shape: constants where the template has one value, a symbolic byte otherwise
		f := in.tf
		b := make([]*Term, len(tmpl))
		var syms []*Term
		for i, set := range tmpl {
			if len(set) == 1 {
				b[i] = f.Const(8, uint64(set[0]))
				continue
			}
			x := f.Var(8, fmt.Sprintf("%s[%d]", name, i))
			b[i] = x
			syms = append(syms, x)
			var c *Term
			if set == nil {
				c = in.classByte(clsREGNN, x)
				if ps.modelOK {
					ps.model[x] = 'a'
				}
			} else {
				c = tFalse
				for _, val := range set {
					c = f.Or(c, f.Eq(x, f.Const(8, uint64(val))))
				}
				if ps.modelOK {
					ps.model[x] = uint64(set[0])
				}
			}
			ps.assume(in, c)
		}
		ps.inputs = append(ps.inputs, inputRec{Name: name, Kind: "str", Terms: b})
		return Str{B: b}
	}
	n := min + ps.choose(in, max-min+1)
	f := in.tf
	b := make([]*Term, n)
	for i := range b {
		b[i] = f.Var(8, fmt.Sprintf("%s[%d]", name, i))
	}
	if ps.modelOK {
		// fresh variables: extend the model with a class member, no solver call needed
		for i := range b {
			ps.model[b[i]] = classDefault(cls)
		}
	}
	for i := range b {
		ps.assume(in, in.classByte(cls, b[i]))
	}
	if cls == clsREG && n > 0 {
		nl := f.Const(8, '\n')
		ps.assume(in, f.Not(f.Eq(b[0], nl)))
		ps.assume(in, f.Not(f.Eq(b[n-1], nl)))
		for i := 0; i+1 < n; i++ {
			ps.assume(in, f.Not(f.And(f.Eq(b[i], nl), f.Eq(b[i+1], nl))))
		}
	}
	ps.inputs = append(ps.inputs, inputRec{Name: name, Kind: "str", Terms: b})
	if n == 0 {
		return Str{}
	}
	return Str{B: b}
}

func (in *Interp) vName(v Value) string {
	s, ok := v.(Str)
	if !ok || s.B != nil {
		panic(in.abort("internal", "sym: name must be a concrete string"))
	}
	return s.S
}

func (in *Interp) registerSymIntrinsics() {
	r := in.intrinsics
	const P = "(*verifh/sym.V)."
	r[P+"Symbolic"] = func(in *Interp, fr *frame, args []Value) Value {
		return in.tf.Bool(in.ps != nil && in.ps.concrete == nil)
	}
	r[P+"Choice"] = func(in *Interp, fr *frame, args []Value) Value {
		ps := in.ps
		name := ps.uniqueName(in.vName(args[1]))
		n := int(in.concInt(args[2].(*Term), true))
		var k int
		if ps.concrete != nil {
			v, ok := ps.concrete[name]
			if !ok {
				panic(in.abort("witness", "missing input "+name))
			}
			k = int(v.(int64))
		} else {
			k = ps.choose(in, n)
		}
		ps.inputs = append(ps.inputs, inputRec{Name: name, Kind: "choice", Val: int64(k)})
		return in.tf.Const(64, uint64(k))
	}
	r[P+"Str"] = func(in *Interp, fr *frame, args []Value) Value {
		return in.symStr(in.vName(args[1]), int(in.concInt(args[2].(*Term), true)), int(in.concInt(args[3].(*Term), true)), int(in.concInt(args[4].(*Term), true)))
	}
	mkInt := func(w uint8, kind string, ranged bool) intrinsicFn {
		return func(in *Interp, fr *frame, args []Value) Value {
			ps := in.ps
			name := ps.uniqueName(in.vName(args[1]))
			if ps.concrete != nil {
				v, ok := ps.concrete[name]
				if !ok {
					panic(in.abort("witness", "missing input "+name))
				}
				return in.tf.Const(w, uint64(v.(int64)))
			}
			t := in.tf.Var(w, name)
			ps.inputs = append(ps.inputs, inputRec{Name: name, Kind: kind, Terms: []*Term{t}, W: w})
			if ranged {
				lo, hi := args[2].(*Term), args[3].(*Term)
				if ps.modelOK && lo.IsConst() {
					ps.model[t] = lo.C
				}
				if kind == "int" {
					ps.assume(in, in.tf.Cmp(OSle, lo, t))
					ps.assume(in, in.tf.Cmp(OSle, t, hi))
				} else {
					ps.assume(in, in.tf.Cmp(OUle, lo, t))
					ps.assume(in, in.tf.Cmp(OUle, t, hi))
				}
			}
			return t
		}
	}
	r[P+"Int"] = mkInt(64, "int", true)
	r[P+"IntAny"] = mkInt(64, "int", false)
	r[P+"Uint32"] = mkInt(32, "uint", false)
	r[P+"Int32"] = mkInt(32, "int", false)
	r[P+"Byte"] = mkInt(8, "uint", false)
	r[P+"Bool"] = func(in *Interp, fr *frame, args []Value) Value {
		ps := in.ps
		name := ps.uniqueName(in.vName(args[1]))
		var k int
		if ps.concrete != nil {
			v, ok := ps.concrete[name]
			if !ok {
				panic(in.abort("witness", "missing input "+name))
			}
			k = int(v.(int64))
		} else {
			k = ps.choose(in, 2)
		}
		ps.inputs = append(ps.inputs, inputRec{Name: name, Kind: "choice", Val: int64(k)})
		return in.tf.Bool(k == 1)
	}
	r[P+"Assume"] = func(in *Interp, fr *frame, args []Value) Value {
		in.ps.assume(in, args[1].(*Term))
		return nil
	}
	r[P+"Assert"] = func(in *Interp, fr *frame, args []Value) Value {
		in.ps.assertObl(in, in.vName(args[1]), args[2].(*Term))
		return nil
	}
	r[P+"Reach"] = func(in *Interp, fr *frame, args []Value) Value {
		in.ps.reached[in.vName(args[1])]++
		return nil
	}
	r[P+"Observe"] = func(in *Interp, fr *frame, args []Value) Value {
		ps := in.ps
		name := in.vName(args[1])
		s := args[2].(Str)
		ps.obs = append(ps.obs, obsRec{Name: name, Val: s})
		return nil
	}
	r[P+"Param"] = func(in *Interp, fr *frame, args []Value) Value {
		name := in.vName(args[1])
		if v, ok := in.params[name]; ok {
			return in.tf.Const(64, uint64(int64(v)))
		}
		return args[2]
	}
	r[P+"RegistryKey"] = func(in *Interp, fr *frame, args []Value) Value {
		ps := in.ps
		name := ps.uniqueName(in.vName(args[1]))
		if ps.concrete != nil {
			v, ok := ps.concrete[name]
			if !ok {
				panic(in.abort("witness", "missing input "+name))
			}
			return mkStr(v.(string))
		}
		which := int(in.concInt(args[2].(*Term), true))
		gname := []string{"leafDecoders", "decoders", "multiCauseDecoders", "leafEncoders", "encoders"}[which]
		pkg := in.env.allPkgs["github.com/cockroachdb/errors/errbase"]
		g, ok := pkg.Members[gname].(*ssa.Global)
		if !ok {
			panic(in.abort("internal", "registry "+gname+" not found in errbase"))
		}
		m := in.globals[g].V.(*Map)
		var keys []string
		for _, e := range m.Entries {
			if !e.Deleted {
				keys = append(keys, in.concStr(e.K.(Str)))
			}
		}
		sort.Strings(keys)
		keys = append(keys, "unregistered/pkg/*pkg.Type")
		k := keys[ps.choose(in, len(keys))]
		b := mkStr(k).Bytes(in.tf)
		ps.inputs = append(ps.inputs, inputRec{Name: name, Kind: "str", Terms: b})
		return mkStr(k)
	}
	r[P+"Freeze"] = func(in *Interp, fr *frame, args []Value) Value {
		in.epoch++
		in.ps.frozen = true
		return nil
	}
	r[P+"Unfreeze"] = func(in *Interp, fr *frame, args []Value) Value {
		in.ps.frozen = false
		return nil
	}
	r[P+"SharedWrites"] = func(in *Interp, fr *frame, args []Value) Value {
		return in.tf.Const(64, uint64(len(in.ps.sharedWrites)))
	}
	r[P+"RecoveredPanics"] = func(in *Interp, fr *frame, args []Value) Value {
		return in.tf.Const(64, uint64(len(in.ps.recovered)))
	}
	r[P+"CallerHook"] = func(in *Interp, fr *frame, args []Value) Value {
		// v.CallerHook(id, depthTerm, base): installs the C16 algebraic obligation
		id := in.vName(args[1])
		depth := args[2].(*Term)
		mode := int(in.concInt(args[3].(*Term), true))
		anchor := fr.caller // the harness helper frame that will call the entry function
		in.ps.callersHook = func(in *Interp, ifr *frame, skip *Term, nframes int) {
			isCaller := ifr.fn.Name() == "Caller"
			if (isCaller && mode&2 == 0) || (!isCaller && mode&1 == 0) {
				return
			}
			// number of logical frames between the runtime function (index 0) and the
			// frame directly called by the anchor
			frames := 0
			found := false
			for f := ifr.caller; f != nil; f = f.caller {
				if f == anchor {
					found = true
					break
				}
				if f.fn.Synthetic == "" {
					frames++
				}
			}
			if !found {
				return
			}
			// expected: skip == frames + depth (frames counts entries 1..k; entry k is the
			// function called by the anchor, so skip=frames+1 names the anchor at depth 0)
			want := in.tf.Bin(OAdd, in.tf.Const(64, uint64(frames+1)), depth)
			in.ps.assertObl(in, id, in.tf.Eq(skip, want))
			if !depth.IsConst() {
				// obligation discharged for every depth; continue the path with depth 0
				in.ps.assume(in, in.tf.Eq(depth, in.tf.Const(depth.W, 0)))
			}
		}
		return nil
	}
	r[P+"ClearCallerHook"] = func(in *Interp, fr *frame, args []Value) Value {
		in.ps.callersHook = nil
		return nil
	}

	// term-level helpers
	r["verifh/sym.Contains"] = func(in *Interp, fr *frame, args []Value) Value {
		s, sub := args[0].(Str).Bytes(in.tf), args[1].(Str).Bytes(in.tf)
		res := tFalse
		for i := 0; i+len(sub) <= len(s); i++ {
			res = in.tf.Or(res, in.eqAt(s, i, sub))
			if res.IsTrue() {
				break
			}
		}
		return res
	}
	r["verifh/sym.HasPrefix"] = func(in *Interp, fr *frame, args []Value) Value {
		s, sub := args[0].(Str).Bytes(in.tf), args[1].(Str).Bytes(in.tf)
		if len(sub) > len(s) {
			return tFalse
		}
		return in.eqAt(s, 0, sub)
	}
	r["verifh/sym.HasSuffix"] = func(in *Interp, fr *frame, args []Value) Value {
		s, sub := args[0].(Str).Bytes(in.tf), args[1].(Str).Bytes(in.tf)
		if len(sub) > len(s) {
			return tFalse
		}
		return in.eqAt(s, len(s)-len(sub), sub)
	}
	r["verifh/sym.HasByteIn"] = func(in *Interp, fr *frame, args []Value) Value {
		s := args[0].(Str).Bytes(in.tf)
		lo, hi := args[1].(*Term), args[2].(*Term)
		res := tFalse
		for _, b := range s {
			res = in.tf.Or(res, in.tf.And(in.tf.Cmp(OUle, lo, b), in.tf.Cmp(OUle, b, hi)))
		}
		return res
	}
	r["verifh/sym.And"] = func(in *Interp, fr *frame, args []Value) Value {
		return in.tf.And(args[0].(*Term), args[1].(*Term))
	}
	r["verifh/sym.Or"] = func(in *Interp, fr *frame, args []Value) Value {
		return in.tf.Or(args[0].(*Term), args[1].(*Term))
	}
	r["verifh/sym.Implies"] = func(in *Interp, fr *frame, args []Value) Value {
		return in.tf.Or(in.tf.Not(args[0].(*Term)), args[1].(*Term))
	}
	r["verifh/sym.Not"] = func(in *Interp, fr *frame, args []Value) Value {
		return in.tf.Not(args[0].(*Term))
	}
	r["verifh/sym.EqStr"] = func(in *Interp, fr *frame, args []Value) Value {
		return strEq(in.tf, args[0].(Str), args[1].(Str))
	}
	r["verifh/sym.WellFormedMarkers"] = func(in *Interp, fr *frame, args []Value) Value {
		return in.markersWellFormed(args[0].(Str))
	}
}

// markersWellFormed builds the term "markers in s are balanced, not nested and
// balanced within every line" by a symbolic automaton over the bytes.
func (in *Interp) markersWellFormed(s Str) *Term {
	f := in.tf
	b := s.Bytes(f)
	open := tFalse // inside a marker pair
	ok := tTrue
	c := func(x uint64) *Term { return f.Const(8, x) }
	for i := 0; i < len(b); i++ {
		isStart, isEnd := tFalse, tFalse
		if i+2 < len(b) {
			pre := f.And(f.Eq(b[i], c(0xe2)), f.Eq(b[i+1], c(0x80)))
			isStart = f.And(pre, f.Eq(b[i+2], c(0xb9)))
			isEnd = f.And(pre, f.Eq(b[i+2], c(0xba)))
		}
		isNL := f.Eq(b[i], c('\n'))
		// start while open -> bad ; end while closed -> bad ; newline while open -> bad
		ok = f.And(ok, f.Not(f.And(isStart, open)))
		ok = f.And(ok, f.Not(f.And(isEnd, f.Not(open))))
		ok = f.And(ok, f.Not(f.And(isNL, open)))
		open = f.Ite(isStart, tTrue, f.Ite(isEnd, tFalse, open))
	}
	return f.And(ok, f.Not(open))
}

func decodeWitnessValue(v interface{}) interface{} {
	switch x := v.(type) {
	case float64:
		return int64(x)
	case map[string]interface{}:
		if b, ok := x["b64"].(string); ok {
			d, _ := base64.StdEncoding.DecodeString(b)
			return string(d)
		}
	case string:
		return x
	}
	return v
}

func classDefault(cls int) uint64 {
	switch cls {
	case clsTOK:
		return 1
	case clsANY, clsNOMARK, clsHOST:
		return 'a'
	}
	return 'a'
}
