package main

// SMT term DAG. Sort Bool has W == 0, bit-vectors have W in {8,16,32,64}.
// Constants fold at construction; non-constant terms are hash-consed per path.

import (
	"fmt"
	"strings"
)

type Op uint8

const (
	OConst Op = iota
	OVar
	ONot
	OAnd
	OOr
	OEq
	OIte
	OAdd
	OSub
	OMul
	OUDiv
	OSDiv
	OURem
	OSRem
	OBAnd
	OBOr
	OBXor
	OShl
	OLshr
	OAshr
	OBNot
	ONeg
	OUlt
	OUle
	OSlt
	OSle
	OExtract // C = hi<<8|lo
	OZext    // to width W
	OSext
)

var opNames = [...]string{"const", "var", "not", "and", "or", "=", "ite", "bvadd", "bvsub", "bvmul", "bvudiv", "bvsdiv", "bvurem", "bvsrem",
	"bvand", "bvor", "bvxor", "bvshl", "bvlshr", "bvashr", "bvnot", "bvneg", "bvult", "bvule", "bvslt", "bvsle", "extract", "zext", "sext"}

type Term struct {
	Op      Op
	W       uint8
	C       uint64
	A, B, D *Term
	Name    string // vars
	defID   int32  // solver definition id (0 = not defined in current solver scope)
}

type termKey struct {
	op      Op
	w       uint8
	c       uint64
	a, b, d *Term
	name    string
}

// TF is a term factory (one per worker; reset per path).
type TF struct {
	tab    map[termKey]*Term
	nvars  int
	Vars   []*Term
	consts [5][258]*Term
}

var tTrue = &Term{Op: OConst, W: 0, C: 1}
var tFalse = &Term{Op: OConst, W: 0, C: 0}

func NewTF() *TF {
	return &TF{tab: map[termKey]*Term{}}
}

func (f *TF) Reset() {
	f.tab = map[termKey]*Term{}
	f.nvars = 0
	f.Vars = nil
}

func mask(w uint8) uint64 {
	if w >= 64 {
		return ^uint64(0)
	}
	return (uint64(1) << w) - 1
}

func widx(w uint8) int {
	switch w {
	case 0:
		return 0
	case 8:
		return 1
	case 16:
		return 2
	case 32:
		return 3
	default:
		return 4
	}
}

func (f *TF) Const(w uint8, c uint64) *Term {
	if w == 0 {
		if c != 0 {
			return tTrue
		}
		return tFalse
	}
	c &= mask(w)
	if c < 257 {
		p := &f.consts[widx(w)][c]
		if *p == nil {
			*p = &Term{Op: OConst, W: w, C: c}
		}
		return *p
	}
	return &Term{Op: OConst, W: w, C: c}
}

func (f *TF) Bool(b bool) *Term {
	if b {
		return tTrue
	}
	return tFalse
}

func (t *Term) IsConst() bool { return t.Op == OConst }
func (t *Term) IsTrue() bool  { return t.Op == OConst && t.W == 0 && t.C == 1 }
func (t *Term) IsFalse() bool { return t.Op == OConst && t.W == 0 && t.C == 0 }

// signed value of a constant
func (t *Term) SVal() int64 {
	return sext64(t.C, t.W)
}

func sext64(c uint64, w uint8) int64 {
	if w >= 64 || w == 0 {
		return int64(c)
	}
	sh := 64 - uint(w)
	return int64(c<<sh) >> sh
}

func (f *TF) Var(w uint8, name string) *Term {
	t := &Term{Op: OVar, W: w, Name: name, C: uint64(f.nvars)}
	f.nvars++
	f.Vars = append(f.Vars, t)
	return t
}

func (f *TF) mk(op Op, w uint8, c uint64, a, b, d *Term) *Term {
	k := termKey{op: op, w: w, c: c, a: a, b: b, d: d}
	if t, ok := f.tab[k]; ok {
		return t
	}
	t := &Term{Op: op, W: w, C: c, A: a, B: b, D: d}
	f.tab[k] = t
	return t
}

func (f *TF) Not(a *Term) *Term {
	if a.IsConst() {
		return f.Bool(a.C == 0)
	}
	if a.Op == ONot {
		return a.A
	}
	return f.mk(ONot, 0, 0, a, nil, nil)
}

func (f *TF) And(a, b *Term) *Term {
	if a.IsConst() {
		if a.C == 0 {
			return tFalse
		}
		return b
	}
	if b.IsConst() {
		if b.C == 0 {
			return tFalse
		}
		return a
	}
	if a == b {
		return a
	}
	return f.mk(OAnd, 0, 0, a, b, nil)
}

func (f *TF) Or(a, b *Term) *Term {
	if a.IsConst() {
		if a.C != 0 {
			return tTrue
		}
		return b
	}
	if b.IsConst() {
		if b.C != 0 {
			return tTrue
		}
		return a
	}
	if a == b {
		return a
	}
	return f.mk(OOr, 0, 0, a, b, nil)
}

func (f *TF) Eq(a, b *Term) *Term {
	if a.W != b.W {
		panic(fmt.Sprintf("Eq width mismatch %d %d", a.W, b.W))
	}
	if a == b {
		return tTrue
	}
	if a.IsConst() && b.IsConst() {
		return f.Bool(a.C == b.C)
	}
	if a.W == 0 {
		// bool equality
		if a.IsConst() {
			if a.C != 0 {
				return b
			}
			return f.Not(b)
		}
		if b.IsConst() {
			if b.C != 0 {
				return a
			}
			return f.Not(a)
		}
	}
	// canonical order: const on the right
	if a.IsConst() {
		a, b = b, a
	}
	// zext(x) == const: compare narrow
	if b.IsConst() && a.Op == OZext {
		if b.C > mask(a.A.W) {
			return tFalse
		}
		return f.Eq(a.A, f.Const(a.A.W, b.C))
	}
	return f.mk(OEq, 0, 0, a, b, nil)
}

func (f *TF) Ite(c, a, b *Term) *Term {
	if c.IsConst() {
		if c.C != 0 {
			return a
		}
		return b
	}
	if a == b {
		return a
	}
	if a.W == 0 && a.IsConst() && b.IsConst() {
		if a.C != 0 {
			return c
		}
		return f.Not(c)
	}
	return f.mk(OIte, a.W, 0, c, a, b)
}

func evalBin(op Op, w uint8, x, y uint64) (uint64, bool) {
	m := mask(w)
	switch op {
	case OAdd:
		return (x + y) & m, true
	case OSub:
		return (x - y) & m, true
	case OMul:
		return (x * y) & m, true
	case OUDiv:
		if y == 0 {
			return m, true
		}
		return (x / y) & m, true
	case OURem:
		if y == 0 {
			return x, true
		}
		return (x % y) & m, true
	case OSDiv:
		sx, sy := sext64(x, w), sext64(y, w)
		if sy == 0 {
			if sx >= 0 {
				return m, true
			}
			return 1, true
		}
		if sy == -1 {
			return uint64(-sx) & m, true
		}
		return uint64(sx/sy) & m, true
	case OSRem:
		sx, sy := sext64(x, w), sext64(y, w)
		if sy == 0 {
			return x, true
		}
		if sy == -1 {
			return 0, true
		}
		return uint64(sx%sy) & m, true
	case OBAnd:
		return x & y, true
	case OBOr:
		return x | y, true
	case OBXor:
		return x ^ y, true
	case OShl:
		if y >= uint64(w) {
			return 0, true
		}
		return (x << y) & m, true
	case OLshr:
		if y >= uint64(w) {
			return 0, true
		}
		return (x >> y) & m, true
	case OAshr:
		sx := sext64(x, w)
		if y >= uint64(w) {
			y = uint64(w) - 1
		}
		return uint64(sx>>y) & m, true
	}
	return 0, false
}

func (f *TF) Bin(op Op, a, b *Term) *Term {
	if a.W != b.W {
		panic(fmt.Sprintf("Bin %s width mismatch %d %d", opNames[op], a.W, b.W))
	}
	if a.IsConst() && b.IsConst() {
		r, _ := evalBin(op, a.W, a.C, b.C)
		return f.Const(a.W, r)
	}
	if (op == OUDiv || op == OURem) && a.Op == OZext && b.IsConst() && b.C != 0 && b.C <= mask(a.A.W) {
		return f.Conv(f.Bin(op, a.A, f.Const(a.A.W, b.C)), a.W, false)
	}
	switch op {
	case OAdd:
		if a.IsConst() && a.C == 0 {
			return b
		}
		if b.IsConst() && b.C == 0 {
			return a
		}
	case OSub:
		if b.IsConst() && b.C == 0 {
			return a
		}
		if a == b {
			return f.Const(a.W, 0)
		}
	case OMul:
		if a.IsConst() && a.C == 1 {
			return b
		}
		if b.IsConst() && b.C == 1 {
			return a
		}
		if (a.IsConst() && a.C == 0) || (b.IsConst() && b.C == 0) {
			return f.Const(a.W, 0)
		}
	case OBAnd:
		if a == b {
			return a
		}
		if (a.IsConst() && a.C == 0) || (b.IsConst() && b.C == 0) {
			return f.Const(a.W, 0)
		}
		if a.IsConst() && a.C == mask(a.W) {
			return b
		}
		if b.IsConst() && b.C == mask(a.W) {
			return a
		}
	case OBOr:
		if a == b {
			return a
		}
		if a.IsConst() && a.C == 0 {
			return b
		}
		if b.IsConst() && b.C == 0 {
			return a
		}
	case OBXor:
		if a == b {
			return f.Const(a.W, 0)
		}
	case OShl, OLshr, OAshr:
		if b.IsConst() && b.C == 0 {
			return a
		}
	}
	return f.mk(op, a.W, 0, a, b, nil)
}

func (f *TF) Cmp(op Op, a, b *Term) *Term {
	if a.W != b.W {
		panic(fmt.Sprintf("Cmp width mismatch %d %d", a.W, b.W))
	}
	if a.IsConst() && b.IsConst() {
		var r bool
		switch op {
		case OUlt:
			r = a.C < b.C
		case OUle:
			r = a.C <= b.C
		case OSlt:
			r = a.SVal() < b.SVal()
		case OSle:
			r = a.SVal() <= b.SVal()
		}
		return f.Bool(r)
	}
	if a == b {
		return f.Bool(op == OUle || op == OSle)
	}
	// zext(x) cmp const where const exceeds the narrow range: decide statically.
	if b.IsConst() && a.Op == OZext {
		nm := mask(a.A.W)
		switch op {
		case OUlt:
			if b.C > nm {
				return tTrue
			}
			return f.Cmp(OUlt, a.A, f.Const(a.A.W, b.C))
		case OUle:
			if b.C >= nm {
				return tTrue
			}
			return f.Cmp(OUle, a.A, f.Const(a.A.W, b.C))
		case OSlt:
			if b.SVal() < 0 {
				return tFalse
			}
			if b.C > nm {
				return tTrue
			}
			return f.Cmp(OUlt, a.A, f.Const(a.A.W, b.C))
		case OSle:
			if b.SVal() < 0 {
				return tFalse
			}
			if b.C >= nm {
				return tTrue
			}
			return f.Cmp(OUle, a.A, f.Const(a.A.W, b.C))
		}
	}
	if a.IsConst() && b.Op == OZext {
		nm := mask(b.A.W)
		switch op {
		case OUlt, OSlt:
			if op == OSlt && a.SVal() < 0 {
				return tTrue
			}
			if a.C >= nm {
				return tFalse
			}
			return f.Cmp(OUlt, f.Const(b.A.W, a.C), b.A)
		case OUle, OSle:
			if op == OSle && a.SVal() < 0 {
				return tTrue
			}
			if a.C > nm {
				return tFalse
			}
			return f.Cmp(OUle, f.Const(b.A.W, a.C), b.A)
		}
	}
	return f.mk(op, 0, 0, a, b, nil)
}

func (f *TF) BNot(a *Term) *Term {
	if a.IsConst() {
		return f.Const(a.W, ^a.C)
	}
	return f.mk(OBNot, a.W, 0, a, nil, nil)
}

func (f *TF) Neg(a *Term) *Term {
	if a.IsConst() {
		return f.Const(a.W, -a.C)
	}
	return f.mk(ONeg, a.W, 0, a, nil, nil)
}

// Conv converts an integer term to width w; signed says whether the SOURCE is signed.
func (f *TF) Conv(a *Term, w uint8, signed bool) *Term {
	if a.W == w {
		return a
	}
	if a.IsConst() {
		if w < a.W {
			return f.Const(w, a.C)
		}
		if signed {
			return f.Const(w, uint64(a.SVal()))
		}
		return f.Const(w, a.C)
	}
	if w < a.W {
		// extract of zext/sext of something at least as narrow
		if (a.Op == OZext || a.Op == OSext) && a.A.W == w {
			return a.A
		}
		if (a.Op == OZext || a.Op == OSext) && a.A.W < w {
			return f.Conv(a.A, w, a.Op == OSext)
		}
		switch a.Op {
		case OAdd, OSub, OMul, OBAnd, OBOr, OBXor:
			// truncation distributes over ring and bitwise operations
			return f.Bin(a.Op, f.Conv(a.A, w, false), f.Conv(a.B, w, false))
		case ONeg:
			return f.Neg(f.Conv(a.A, w, false))
		}
		return f.mk(OExtract, w, uint64(w-1)<<8, a, nil, nil)
	}
	if signed {
		return f.mk(OSext, w, 0, a, nil, nil)
	}
	if a.Op == OZext {
		return f.mk(OZext, w, 0, a.A, nil, nil)
	}
	return f.mk(OZext, w, 0, a, nil, nil)
}

// Eval evaluates t under a model (var -> value); missing vars are 0.
func (t *Term) Eval(m map[*Term]uint64, memo map[*Term]uint64) uint64 {
	switch t.Op {
	case OConst:
		return t.C
	case OVar:
		return m[t] & mask8(t.W)
	}
	if v, ok := memo[t]; ok {
		return v
	}
	var r uint64
	switch t.Op {
	case ONot:
		r = 1 - t.A.Eval(m, memo)
	case OAnd:
		r = t.A.Eval(m, memo) & t.B.Eval(m, memo)
	case OOr:
		r = t.A.Eval(m, memo) | t.B.Eval(m, memo)
	case OEq:
		if t.A.Eval(m, memo) == t.B.Eval(m, memo) {
			r = 1
		}
	case OIte:
		if t.A.Eval(m, memo) != 0 {
			r = t.B.Eval(m, memo)
		} else {
			r = t.D.Eval(m, memo)
		}
	case OUlt, OUle, OSlt, OSle:
		x, y := t.A.Eval(m, memo), t.B.Eval(m, memo)
		w := t.A.W
		var b bool
		switch t.Op {
		case OUlt:
			b = x < y
		case OUle:
			b = x <= y
		case OSlt:
			b = sext64(x, w) < sext64(y, w)
		case OSle:
			b = sext64(x, w) <= sext64(y, w)
		}
		if b {
			r = 1
		}
	case OBNot:
		r = ^t.A.Eval(m, memo) & mask(t.W)
	case ONeg:
		r = -t.A.Eval(m, memo) & mask(t.W)
	case OExtract:
		r = t.A.Eval(m, memo) & mask(t.W)
	case OZext:
		r = t.A.Eval(m, memo)
	case OSext:
		r = uint64(sext64(t.A.Eval(m, memo), t.A.W)) & mask(t.W)
	default:
		r, _ = evalBin(t.Op, t.W, t.A.Eval(m, memo), t.B.Eval(m, memo))
	}
	memo[t] = r
	return r
}

func mask8(w uint8) uint64 {
	if w == 0 {
		return 1
	}
	return mask(w)
}

func sortStr(w uint8) string {
	if w == 0 {
		return "Bool"
	}
	return fmt.Sprintf("(_ BitVec %d)", w)
}

func constStr(t *Term) string {
	if t.W == 0 {
		if t.C != 0 {
			return "true"
		}
		return "false"
	}
	return fmt.Sprintf("(_ bv%d %d)", t.C, t.W)
}

// String renders the term as a tree (debugging only; may be large).
func (t *Term) String() string {
	var sb strings.Builder
	t.write(&sb, 0)
	return sb.String()
}

func (t *Term) write(sb *strings.Builder, depth int) {
	if depth > 12 {
		sb.WriteString("…")
		return
	}
	switch t.Op {
	case OConst:
		sb.WriteString(constStr(t))
	case OVar:
		sb.WriteString(t.Name)
	default:
		sb.WriteString("(" + opNames[t.Op])
		for _, a := range []*Term{t.A, t.B, t.D} {
			if a != nil {
				sb.WriteString(" ")
				a.write(sb, depth+1)
			}
		}
		sb.WriteString(")")
	}
}
