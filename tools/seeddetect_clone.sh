#!/bin/sh
# seeddetect_clone.sh <clone dir (tools/clone.sh)> <seed id> [workers]: like seeddetect.sh, but applies the seeded change
# to the clone's worktree of /repo and runs the clone's copy of the property's quick check (leaves /repo alone).
D="$1"; SID="$2"; W="${3:-8}"; S=/verif/seeded/$SID; ID=${SID%%-*}
git -C $D/repo checkout -q -- . ; git -C $D/repo apply $S/patch.diff || { echo "RESULT $ID: ERROR (patch does not apply)"; exit 2; }
OUT=$(timeout 3000 $D/run.sh $ID quick -workers $W 2>&1); RC=$?
git -C $D/repo checkout -q -- .
echo "$OUT" | grep -E "^(VIOLATION|KNOWN-FINDING|INCONCLUSIVE|SUMMARY|ERROR|  harness=)" | sort | uniq -c | sort -rn | head -40
if [ $RC -eq 1 ] && echo "$OUT" | grep -q "^VIOLATION property=$ID"; then echo "RESULT $ID: DETECTED"; elif [ $RC -eq 0 ]; then echo "RESULT $ID: MISSED"; else echo "RESULT $ID: ERROR rc=$RC"; fi
