#!/bin/sh
# seeddetect.sh <property id> <patch.diff> [tier]: applies the seeded change to /repo, runs the
# property's check, and restores /repo. Prints DETECTED / MISSED and the VIOLATION lines.
ID="$1"; P="$2"; TIER="${3:-quick}"
cd /repo || exit 2
if [ -n "$(git status --porcelain)" ]; then echo "/repo not clean"; exit 2; fi
git apply "$P" || { echo "patch does not apply"; exit 2; }
OUT=$(mktemp)
cd /verif && ./check "$ID" --tier "$TIER" -no-evidence >"$OUT" 2>&1
RC=$?
git -C /repo checkout -- .
rm -rf /verif/replays/"$ID"
grep -a "^VIOLATION\|^  harness=\|^SUMMARY\|^ERROR\|^INCONCLUSIVE" "$OUT" | cut -c1-260 | sort | uniq -c | sort -rn | head -12
if [ $RC -eq 1 ]; then echo "RESULT $ID: DETECTED"; elif [ $RC -eq 0 ]; then echo "RESULT $ID: MISSED"; else echo "RESULT $ID: ERROR rc=$RC"; tail -5 "$OUT"; fi
rm -f "$OUT"
