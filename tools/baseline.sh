#!/bin/sh
# Runs the repository's pinned test suite (guard off) and reports pass/fail counts
# against the 244 stable tests of /root/.vp/BASELINE.json.
cd "${1:-/repo}" || exit 2
export GOFLAGS=-mod=mod GOPROXY=off GOSUMDB=off
OUT=$(mktemp)
go test -mod=mod -json -vet=off -count=1 -timeout 25m ./... > "$OUT" 2>/dev/null
python3 - "$OUT" <<'PY'
import json,sys
base=json.load(open('/root/.vp/BASELINE.json'))
stable=set(base['stable_pass'])
res={}
for l in open(sys.argv[1]):
    try: e=json.loads(l)
    except: continue
    if e.get('Action') in ('pass','fail') and e.get('Test'):
        res[e['Package']+'::'+e['Test']]=e['Action']
missing=[t for t in stable if res.get(t)!='pass']
print("stable=%d passing=%d not_passing=%d"%(len(stable),len(stable)-len(missing),len(missing)))
for t in sorted(missing): print("NOT PASSING:",t,res.get(t))
sys.exit(1 if missing else 0)
PY
RC=$?
rm -f "$OUT"
exit $RC
