#!/bin/sh
# seeddetect_some.sh "<n list>" [tier]: detection run for the kept seeded changes <ID>-<n>, one after the other.
NS="$1"; TIER="${2:-quick}"
for S in /verif/seeded/*/; do
  sid=$(basename "$S"); ID=${sid%%-*}; n=${sid##*-}
  case " $NS " in *" $n "*) ;; *) continue;; esac
  [ -f "$S/patch.diff" ] || continue
  R=$(sh /verif/tools/seeddetect.sh "$ID" "$S/patch.diff" "$TIER" 2>&1)
  echo "$R" > "$S/detection_$TIER.txt"
  echo "$sid $(echo "$R" | grep '^RESULT')"
done
