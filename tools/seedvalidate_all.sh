#!/bin/sh
# seedvalidate_all.sh "<n list>": seedstore.sh for every property and the given seed numbers, 4 at a time.
NS="${1:-5 6}"
for i in $(seq -w 1 20); do for n in $NS; do echo "C$i $n"; done; done | xargs -P 4 -L 1 sh /verif/tools/seedstore.sh
