#!/bin/sh
# seedprocess.sh <ID> : validates the sub-agent's seeded changes in /tmp/wt_<ID>/out/<n>, stores the confirmed
# ones under /verif/seeded/<ID>-<n>/ and runs the property's quick check against each.
ID="$1"; TIER="${2:-quick}"
for n in ${SEEDS:-1 2 3 4}; do
  D=/tmp/wt_$ID/out/$n
  [ -f "$D/patch.diff" ] || continue
  echo "=== $ID-$n: $(python3 -c "import json;print(json.load(open('$D/meta.json')).get('summary',''))" 2>/dev/null)"
  V=$(sh /verif/tools/seedvalidate.sh "$D" 2>&1); RC=$?
  echo "$V" | sed 's/^/   /'
  if [ $RC -ne 0 ]; then echo "   => NOT CONFIRMED, skipped"; continue; fi
  S=/verif/seeded/$ID-$n
  mkdir -p "$S" && cp "$D/patch.diff" "$D/demo_test.go" "$S/" && cp "$D/meta.json" "$S/agent_meta.json"
  R=$(sh /verif/tools/seeddetect.sh "$ID" "$S/patch.diff" "$TIER" 2>&1)
  echo "$R" | sed 's/^/   /'
  echo "$V" > "$S/validation.txt"; echo "$R" > "$S/detection_$TIER.txt"
done
