#!/bin/sh
# seedstore.sh <ID> <n>: validates the sub-agent's seeded change /tmp/wt_<ID>/out/<n> and, when confirmed, stores it
# under /verif/seeded/<ID>-<n>/ (no detection run).
ID=$1; n=$2; D=/tmp/wt_$ID/out/$n
[ -f "$D/patch.diff" ] || { echo "$ID-$n: no deliverable"; exit 0; }
V=$(sh /verif/tools/seedvalidate.sh "$D" 2>&1); RC=$?
if [ $RC -ne 0 ]; then echo "$ID-$n: NOT CONFIRMED"; echo "$V" | sed 's/^/    /' | head -20; exit 0; fi
S=/verif/seeded/$ID-$n
mkdir -p "$S" && cp "$D/patch.diff" "$D/demo_test.go" "$S/" && cp "$D/meta.json" "$S/agent_meta.json"
echo "$V" > "$S/validation.txt"; echo "$ID-$n: confirmed"
