#!/bin/sh
# Writes seeded/<id>/meta.json for every kept seeded change and the summary table seeded/RESULTS.md.
python3 - <<'PY'
import json,os,re,glob
rows=[]
for d in sorted(glob.glob('/verif/seeded/*/')):
    sid=os.path.basename(d.rstrip('/'))
    prop=sid.split('-')[0]
    am={}
    try: am=json.load(open(d+'agent_meta.json'))
    except Exception: pass
    det={}
    for f in sorted(glob.glob(d+'detection_*.txt')):
        tier=re.search(r'detection_(\w+)\.txt',f).group(1)
        txt=open(f).read()
        m=re.search(r'RESULT \S+: (\w+)',txt)
        ids=sorted(set(re.findall(r'assert=(\S+)',txt)))
        det[tier]={"result":m.group(1) if m else "?","failing_asserts":ids[:8]}
    val=open(d+'validation.txt').read().strip().split('\n') if os.path.exists(d+'validation.txt') else []
    meta={"id":sid,"property":prop,"summary":am.get("summary",""),"needs":am.get("needs",""),"files":am.get("files",[]),
          "origin":"sub-agent given only the property text and a scratch worktree" if am else "written by hand",
          "confirmed":val,"what_was_run":["sh /verif/tools/seedvalidate.sh <dir> (fresh worktree: demo passes clean, patch applies, compiles, demo fails, pinned suite 244 passing)",
                                       "sh /verif/tools/seeddetect.sh %s <dir>/patch.diff <tier> (git apply on /repo, /verif/check, git checkout)"%prop],
          "detection":det}
    json.dump(meta,open(d+'meta.json','w'),indent=1)
    best="MISSED"
    for t in det.values():
        if t["result"]=="DETECTED": best="DETECTED"
    tiers=", ".join("%s: %s"%(k,v["result"]) for k,v in det.items())
    ids=[]
    for t in det.values():
        if t["result"]=="DETECTED": ids=t["failing_asserts"]
    rows.append((sid,am.get("summary","")[:150].replace("\n"," ").replace("|","/"),tiers,", ".join(ids[:3])))
with open('/verif/seeded/RESULTS.md','w') as f:
    f.write("# Seeded changes and the checks that catch them\n\nEach change compiles, keeps the pinned suite at 244 passing, and has a demonstration test that fails with it and passes without it (re-confirmed by tools/seedvalidate.sh). Detection = the property's own check run on /repo with the patch applied.\n\n| id | change | detection | failing assert ids (first) |\n|---|---|---|---|\n")
    for r in rows: f.write("| %s | %s | %s | %s |\n"%r)
    n=len(rows); d=sum(1 for r in rows if 'DETECTED' in r[2])
    f.write("\n%d of %d caught by the property's check.\n"%(d,n))
tbl="| id | change | detection | failing assert ids (first) |\n|---|---|---|---|\n"+"".join("| %s | %s | %s | %s |\n"%r for r in rows)+"\n%d of %d seeded changes are caught by the property's own check.\n"%(d,n)
D=open('/verif/DESIGN.md').read()
a=D.index('<!-- SEEDTABLE BEGIN -->')+len('<!-- SEEDTABLE BEGIN -->'); b=D.index('<!-- SEEDTABLE END -->')
open('/verif/DESIGN.md','w').write(D[:a]+"\n"+tbl+D[b:])
print(open('/verif/seeded/RESULTS.md').read()[-300:])
PY
