#!/usr/bin/env python3
# Generates /verif/MANIFEST.json from checks.json (claimed properties) and the not-applicable table below.
import json
checks=json.load(open('/verif/checks.json'))
props=[json.loads(l) for l in open('/verif/properties.jsonl')]
NOT_APPLICABLE={
}
PENDING_REASON="no solver-based check of this property is registered yet in this revision of /verif (harness not built or not yet clean on the unchanged tree); nothing is claimed"
LEVEL_TEXT={}
try:
    LEVEL_TEXT=json.load(open('/verif/tools/level_text.json'))
except Exception:
    pass
out={"version":1,
 "setup_cmd":"sh /verif/tools/setup.sh",
 "hooks":{"guard":"verif","enable":"none needed: harnesses use only the exported API of /repo (no hook commits); checks load /repo's working tree through the harness module's replace directive","baseline_off_cmd":"sh /verif/tools/baseline.sh","source_commits":[],"add_only":True},
 "engines":[{"name":"symgo","path":"/verif/engine","serves_properties":sorted(k for k in checks if k.startswith('C')),"kind_free_text":"bounded symbolic executor for Go written for this task: go/ssa of /repo's working tree (regenerated every run) interpreted with symbolic bytes/integers; every non-folded branch and assertion is decided by z3 (SMT-LIB2 bit-vectors over a long-lived z3 -in process); counterexamples are replayed natively against /repo"}],
 "checks":[], "not_applicable":[],
 "notes":"See DESIGN.md. Exit 0 = every obligation on every explored path was discharged (or only KNOWN-FINDING lines); exit 1 = natively reproduced counterexample (VIOLATION line); exit 2 = the check could not run (build/load failure), not a verdict. INCONCLUSIVE lines shrink the claim and never change the exit code."}
for p in props:
    pid=p['id']
    if pid in checks:
        c=checks[pid]
        lt=LEVEL_TEXT.get(pid,{})
        out["checks"].append({
          "property_id":pid,
          "quick_cmd":"/verif/check %s --tier quick"%pid,
          "thorough_cmd":"/verif/check %s --tier thorough"%pid,
          "evidence_file":"/verif/evidence/%s.json"%pid,
          "replay_cmd_template":"/verif/check replay {path}",
          "engine":"symgo",
          "level_claimed":{"category":"model_checking","text":lt.get("text","Bounded symbolic execution of the real code: within the stated bounds (%s) every feasible path of the harnesses is explored and every assertion is decided for all byte/integer values at once by z3 or by term folding; violations are replayed natively."%c.get("bounds","see DESIGN.md")),"design_ref":"DESIGN.md section 7 (%s)"%pid},
          "level_note":lt.get("note","Trusted: go/ssa, the engine's instruction semantics and leaf stubs (validated on every run by re-running sampled path models natively and comparing observations), z3. Outside: "+"; ".join(c.get("outside",["see DESIGN.md"]))),
          "technique":"solver-based bounded symbolic execution of the real Go code (go/ssa -> SMT-LIB2 bit-vectors, z3), native replay of counterexamples"})
    else:
        out["not_applicable"].append({"property_id":pid,"reason":NOT_APPLICABLE.get(pid,PENDING_REASON)})
json.dump(out,open('/verif/MANIFEST.json','w'),indent=1)
print("checks:",[c["property_id"] for c in out["checks"]],"n/a:",[c["property_id"] for c in out["not_applicable"]])
