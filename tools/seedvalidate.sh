#!/bin/sh
# seedvalidate.sh <dir with patch.diff + demo_test.go>: confirms, in a scratch worktree of /repo,
# that the seeded change compiles, keeps the pinned suite green, and that the demo fails with it
# and passes without it. Prints one line per fact; exit 0 only if all hold.
D="$1"
export GOFLAGS=-mod=mod GOPROXY=off GOSUMDB=off GOTOOLCHAIN=local
W=$(mktemp -d /tmp/seedval.XXXXXX)
git -C /repo worktree add -q --detach "$W/wt" HEAD || exit 2
cleanup() { git -C /repo worktree remove --force "$W/wt" >/dev/null 2>&1; rm -rf "$W"; }
trap cleanup EXIT
cd "$W/wt" || exit 2
mkdir verifdemo && cp "$D/demo_test.go" verifdemo/demo_test.go
RACE=""
grep -q '"race"' "$D/meta.json" 2>/dev/null && RACE=""
if grep -qi 'go test -race\|-race' "$D/meta.json" 2>/dev/null; then RACE="-race"; export CGO_ENABLED=1; fi
if go test $RACE -vet=off -count=1 ./verifdemo/ >"$W/demo_clean.log" 2>&1; then echo "demo-passes-without-change: yes"; else echo "demo-passes-without-change: NO"; tail -15 "$W/demo_clean.log"; exit 1; fi
if git apply "$D/patch.diff"; then echo "patch-applies: yes"; else echo "patch-applies: NO"; exit 1; fi
if go build ./... >"$W/build.log" 2>&1; then echo "compiles: yes"; else echo "compiles: NO"; cat "$W/build.log"; exit 1; fi
if go test $RACE -vet=off -count=1 ./verifdemo/ >"$W/demo_mut.log" 2>&1; then echo "demo-fails-with-change: NO (it passed)"; exit 1; else echo "demo-fails-with-change: yes"; fi
rm -rf verifdemo
if sh /verif/tools/baseline.sh "$W/wt" >"$W/base.log" 2>&1; then echo "suite-unchanged: yes ($(head -1 "$W/base.log"))"; else echo "suite-unchanged: NO"; cat "$W/base.log" | head; exit 1; fi
exit 0
