#!/bin/sh
# Builds the framework offline from files on disk: the engine (symgo) and the native harness runner.
set -e
export GOFLAGS=-mod=mod GOPROXY=off GOSUMDB=off GOTOOLCHAIN=local
mkdir -p /verif/bin /verif/evidence /verif/replays
cp /repo/go.sum /verif/harness/go.sum
/verif/tools/genregistry.sh
(cd /verif/engine && go build -o /verif/bin/symgo .)
(cd /verif/harness && CGO_ENABLED=0 go build -o /verif/bin/native ./cmd/native)
echo "setup ok"
