#!/bin/sh
# Re-runs detection (no re-validation) for every kept seeded change: seedredetect.sh [tier]
TIER="${1:-quick}"
for S in /verif/seeded/*/; do
  sid=$(basename "$S"); ID=${sid%%-*}
  [ -f "$S/patch.diff" ] || continue
  echo "=== $sid"
  R=$(sh /verif/tools/seeddetect.sh "$ID" "$S/patch.diff" "$TIER" 2>&1)
  echo "$R" | grep -v "^ *1 VIOLATION" | sed 's/^/   /' | cut -c1-240
  echo "$R" > "$S/detection_$TIER.txt"
done
