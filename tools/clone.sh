#!/bin/sh
# clone.sh <dir>: scratch copy of /verif and a detached worktree of /repo under <dir>, wired together
# (harness replace directive, VERIF_DIR/VERIF_REPO). For exploratory runs only; remove with clone.sh -d <dir>.
if [ "$1" = "-d" ]; then git -C /repo worktree remove --force "$2/repo" 2>/dev/null; rm -rf "$2"; exit 0; fi
D="$1"; mkdir -p "$D" || exit 2
git -C /repo worktree add -q --detach "$D/repo" HEAD || exit 2
rsync -a --exclude .git --exclude bin --exclude replays --exclude evidence /verif/ "$D/verif/"
sed -i "s|=> /repo|=> $D/repo|" "$D/verif/harness/go.mod"
mkdir -p "$D/verif/bin" "$D/verif/evidence" "$D/verif/replays"
cat > "$D/run.sh" <<EOS
#!/bin/sh
# usage: run.sh <ID> <tier> [extra symgo flags]
export GOFLAGS=-mod=mod GOPROXY=off GOSUMDB=off GOTOOLCHAIN=local VERIF_DIR=$D/verif VERIF_REPO=$D/repo
cd $D/verif && (cd engine && go build -o $D/verif/bin/symgo .) && ID=\$1 && TIER=\$2 && shift 2 && exec $D/verif/bin/symgo check -id \$ID -tier \$TIER "\$@"
EOS
chmod +x "$D/run.sh"; echo "clone ready: $D/run.sh <ID> <tier>"
